"""C13 -- a parse result depends only on the bytes parsed, not on history or
threads.

  threads : 2-4 application threads under the deterministic scheduler
            (sim.sched), each running parse operations
  history : one thread, 5-200 operations in a seeded order

Oracle: the outcome of every operation equals the outcome of the same bytes
and options computed ALONE in a freshly forked process that has imported
pyrtcm and parsed nothing else; the digest of all module-level tables of the
library is unchanged by the run.
"""

import hashlib
import io
import os
import pickle
import re
import struct
import sys

from .. import corpus
from .. import readerworld as W
from .. import rng as R
from .. import wire
from ..runner import REPO, HarnessError, d64, digest_of, violation
from ..sched import DeadlockDetected, Scheduler, SchedulerError, install_lock_seam

PROP = "C13"
RUNS = {"quick": 1600, "thorough": 120000}
BLOCK = {"quick": 20, "thorough": 500}
WATCHDOG_S = 3600
TRACE_SAMPLE = 0  # scenarios run in child processes; reach is reported as switch sites instead
HANG_NOTE = "a scenario child that does not answer within runner.HANG_S is reported as C13:hang; the child is killed by its own alarm"
SHRINK_LISTS = ["threads", "switches"]
RULE = (
    "thread runs (3 of 4): 2-4 real threads, one runnable at a time, pre-empted at pyrtcm source-line granularity by a "
    "seeded scheduler (Bernoulli per line boosted after call/return, PCT-style change points, or log-uniform time slices), each thread running "
    "1-6 operations (RTCMMessage(payload), RTCMReader.parse(frame), iterate a fresh reader over several frames from a "
    "BytesIO or from its own simulated socket, feed a long-lived reader successive streams, str(msg)) drawn from a themed workload (same type / MSM vs MSM with different "
    "masks and label options / sibling types / succeeding vs failing parses of one type / mixed) over the full corpus "
    "(every defined identity, recorded real frames, unknown numbers) plus failing inputs (truncated payloads, bad CRC, "
    "garbage). history runs (1 of 4): one thread, 5-200 such operations. distinct = distinct (operations, switch "
    "sequence) digests; non-trivial = thread run with >= 1 context switch while another thread was inside pyrtcm code, "
    "or history run with >= 2 operations of which >= 1 failing."
)
ASSUMPTIONS = [
    "pre-emption granularity is one pyrtcm source line (a race needing a switch inside one line is out of reach: bytecode-level tracing with f_trace_opcodes segfaults CPython 3.12.1 when several traced threads are parked inside the same code object, see DESIGN 9)",
    "baseline = same bytes/options computed alone in a freshly forked process (pristine import, nothing parsed before)",
    "exception texts are compared after normalising object addresses",
]

_ADDR = re.compile(r"0x[0-9a-fA-F]{6,}")

# ---------------------------------------------------------------------------
# operations
# ---------------------------------------------------------------------------


def _canon_msg(m):
    return ("ok", str(m.identity), bytes(m.payload).hex(), repr(W.public_dict(m)), str(m))


def _canon_exc(e):
    return ("exc", type(e).__name__, _ADDR.sub("0xADDR", str(e))[:300])


class FeedStream:
    """stream for a long-lived reader: the application appends more bytes
    after the reader reported end of data"""

    def __init__(self):
        self.buf = bytearray()

    def feed(self, data):
        self.buf += data

    def read(self, n):
        if n <= 0:
            return b""
        if len(self.buf) < n:  # behave like a file at EOF: give what is there
            out = bytes(self.buf)
            del self.buf[:]
            return out
        out = bytes(self.buf[:n])
        del self.buf[:n]
        return out

    def readline(self):
        j = self.buf.find(b"\n")
        k = len(self.buf) if j < 0 else j + 1
        out = bytes(self.buf[:k])
        del self.buf[:k]
        return out


def run_op(op):
    from pyrtcm import RTCMMessage, RTCMReader

    kind = op[0]
    try:
        if kind == "msg":
            return _canon_msg(RTCMMessage(payload=bytes.fromhex(op[1]), labelmsm=op[2]))
        if kind == "str":
            m = RTCMMessage(payload=bytes.fromhex(op[1]), labelmsm=op[2])
            return ("str", str(m), repr(m))
        if kind == "parse":
            return _canon_msg(RTCMReader.parse(bytes.fromhex(op[1]), validate=op[2], labelmsm=op[3]))
    except Exception as e:  # pylint: disable=broad-except
        return _canon_exc(e)
    o = op[2]
    out = []
    if kind == "iter":
        data = b"".join(bytes.fromhex(h) for h in op[1])
        rd = RTCMReader(io.BytesIO(data), validate=o["validate"], quitonerror=o["quitonerror"], labelmsm=o["labelmsm"], parsed=o["parsed"])
        streams = [None]
    elif kind == "sockiter":
        # a reader over its own (simulated) socket: SocketWrapper objects in several threads
        from ..transports import Link, RngDecider, SimSocket

        data = b"".join(bytes.fromhex(h) for h in op[1])
        link = Link(data, RngDecider(R.random.Random(o["segseed"]), {"seg": o["seg"]}), 8 * len(data) + 200)
        rd = RTCMReader(SimSocket(link), validate=o["validate"], quitonerror=o["quitonerror"], labelmsm=o["labelmsm"], parsed=o["parsed"], bufsize=o["bufsize"])
        streams = [None]
        handover = o.get("handover")
    else:  # feed
        fs = FeedStream()
        rd = RTCMReader(fs, validate=o["validate"], quitonerror=o["quitonerror"], labelmsm=o["labelmsm"], parsed=o["parsed"])
        streams = op[1]
    nfr = 0
    for chunk in streams:
        if chunk is not None:
            fs.feed(b"".join(bytes.fromhex(h) for h in chunk))
        guard = 0
        while guard < 400:
            guard += 1
            if kind == "sockiter" and handover is not None and nfr >= handover:
                # the connection passes to a new reader object; the old one is dropped and collected
                import gc

                rd = RTCMReader(rd.datastream, validate=o["validate"], quitonerror=o["quitonerror"], labelmsm=o["labelmsm"], parsed=o["parsed"], bufsize=o["bufsize"])
                gc.collect()
                handover = None
            try:
                raw, parsed = rd.read()
            except Exception as e:  # pylint: disable=broad-except
                out.append(_canon_exc(e))
                continue
            if raw is None and parsed is None:
                out.append(("none",))
                break
            nfr += 1
            out.append(("frame", bytes(raw).hex(), _canon_msg(parsed) if parsed is not None else None))
    return ("events", tuple(out))


# ---------------------------------------------------------------------------
# pristine processes
#
# The process that calls execute() (a pool worker, or the parent when it
# regenerates / minimises / replays) NEVER parses anything itself: every
# baseline operation and every scenario runs in a child forked from it, so
# each of them starts from a pristine import of pyrtcm and each run is a pure
# function of its scenario.
# ---------------------------------------------------------------------------


def _in_child(fn, arg):
    """run fn(arg) in a forked child, return its (pickled) result"""
    r, w = os.pipe()
    pid = os.fork()
    if pid == 0:
        code = 1
        try:
            os.close(r)
            import signal

            # a child that hangs (deadlock in the tree under test) must not outlive the check, and must
            # not keep the check's stdout/stderr pipes open (whoever waits for EOF on them would wait too)
            signal.alarm(150)
            dn = os.open(os.devnull, os.O_RDWR)
            os.dup2(dn, 1)
            os.dup2(dn, 2)
            data = pickle.dumps(fn(arg))
            os.write(w, struct.pack("<I", len(data)))
            off = 0
            while off < len(data):
                off += os.write(w, data[off : off + 65536])
            code = 0
        except BaseException as e:  # pylint: disable=broad-except
            try:
                msg = pickle.dumps(("child-error", repr(e)))
                os.write(w, struct.pack("<I", len(msg)) + msg)
            except BaseException:  # pylint: disable=broad-except
                pass
        finally:
            os._exit(code)
    os.close(w)
    # read exactly the announced length, not "until EOF": a grandchild that hangs (a deadlock in the
    # tree under test) inherits the write end and would keep the pipe open long after the child is gone
    chunks = []
    got = 0
    want = None
    while want is None or got < want:
        chunk = os.read(r, 1 << 16)
        if not chunk:
            break
        chunks.append(chunk)
        got += len(chunk)
        if want is None and got >= 4:
            want = 4 + struct.unpack("<I", b"".join(chunks)[:4])[0]
    os.close(r)
    _, status = os.waitpid(pid, 0)
    buf = b"".join(chunks)
    if len(buf) < 4 or len(buf) - 4 != struct.unpack("<I", buf[:4])[0]:
        raise HarnessError(f"child process died without a result (wait status {status}, {len(buf)} bytes received)")
    res = pickle.loads(buf[4:])
    if isinstance(res, tuple) and res and res[0] == "child-error":
        raise HarnessError("child process failed: " + res[1])
    return res


_CACHE = {}
_STATS = {"forks": 0}


def baselines(ops):
    if len(_CACHE) > 30000:
        _CACHE.clear()  # only between scenarios: never while results of this call are being collected
    out = []
    for op in ops:
        k = repr(op)
        if k not in _CACHE:
            _CACHE[k] = _in_child(run_op, op)
            _STATS["forks"] += 1
        out.append(_CACHE[k])
    return out


_EMPTY = (dict, list, set)


def tables_snapshot():
    """The library's definition and lookup tables: the module-level containers
    listed in the pinned file corpus/tables.txt (every non-empty public
    ALL-CAPS container of the clean tree, by module and name; 91 bindings of 48
    objects).  Names that no longer exist in the tree under test are skipped;
    containers a refactor adds -- memo caches, precomputed expansions, even when
    they sit next to the tables, are pre-seeded at import and grow or evict while
    parsing -- are not the library's definition tables and are not digested:
    whether they change a *result* is what the outcome comparison decides."""
    path = os.path.join(os.path.dirname(os.path.dirname(os.path.dirname(os.path.abspath(__file__)))), "corpus", "tables.txt")
    names = []
    with open(path) as f:
        for line in f:
            mname, k = line.split()
            mod = sys.modules.get(mname)
            if mod is not None and isinstance(vars(mod).get(k), (dict, list, tuple, set, frozenset)):
                names.append((mname, k))
    return names


def tables_digest(names):
    h = hashlib.blake2b(digest_size=16)
    changed = []
    for mname, k in names:
        v = vars(sys.modules[mname]).get(k, "<deleted>")
        h.update(k.encode())
        h.update(repr(v).encode("utf-8", "backslashreplace"))
    return h.hexdigest()


def tables_items(names):
    return {(m, k): hashlib.blake2b(repr(vars(sys.modules[m]).get(k, "<deleted>")).encode("utf-8", "backslashreplace"), digest_size=8).hexdigest() for m, k in names}


# ---------------------------------------------------------------------------
# workload generation
# ---------------------------------------------------------------------------

_IDX = {}


def _index():
    if not _IDX:
        by_id = {}
        for ident, need, p in corpus.synth_payloads():
            by_id.setdefault(ident, []).append(("synth", need, p))
        for ident, fr in corpus.real_frames():
            by_id.setdefault(ident, []).append(("real", len(fr) - 6, fr[3:-3]))
        _IDX["by_id"] = by_id
        _IDX["ids"] = sorted(by_id)
        fam = {}
        for ident in by_id:
            fam.setdefault(corpus.family(ident), []).append(ident)
        _IDX["fam"] = {k: sorted(v) for k, v in fam.items()}
        _IDX["msm_real"] = [(i, fr[3:-3]) for i, fr in corpus.real_frames() if corpus.family(i) == "msm"]
    return _IDX


def _payload(rng, ident):
    cls, need, p = rng.choice(_index()["by_id"][ident])
    return need, p


def _failing_variant(rng, need, p):
    k = rng.randrange(4)
    if k == 0 and need > 3:
        return p[: rng.randrange(2, need)]  # truncated inside the fields
    if k == 1:
        b = bytearray(p[:need])
        for i in range(3, len(b)):
            b[i] = 0xFF  # counters/masks forced up: overruns the payload
        return bytes(b)
    if k == 2:
        return p[:2]
    return p[: max(2, need - 1)]


def crafted_msm(rng, ident=None):
    """An MSM payload with seeded *small* masks, laid out from the standard
    header (12+12+30+1+3+7+2+2+1+3 = 73 bits, then the 64-bit satellite mask,
    the 32-bit signal mask and the nsat*nsig cell mask), zero padded.  Small
    shapes make different messages share mask values while differing in shape
    or constellation -- the inputs on which a badly keyed cache shows."""
    msm_ids = _index()["fam"]["msm"]
    ident = ident if ident is not None and ident in msm_ids else rng.choice(msm_ids)
    nsat = rng.choice((1, 1, 2, 2, 3))
    nsig = rng.choice((1, 2, 2, 3))
    sats = sorted(rng.sample(range(1, 9), nsat))  # low satellite ids: shared by all constellations
    sigs = sorted(rng.sample((2, 3, 8, 9, 15, 22), nsig))
    satmask = 0
    for x in sats:
        satmask |= 1 << (64 - x)
    sigmask = 0
    for x in sigs:
        sigmask |= 1 << (32 - x)
    ncell = nsat * nsig
    cellmask = rng.choice(((1 << ncell) - 1, rng.getrandbits(ncell) | 1, 0b110100 & ((1 << ncell) - 1) or 1))
    v = int(ident)
    v = (v << 12) | rng.choice((0, 1, 2003))
    v = (v << 30) | rng.getrandbits(20)
    v = (v << 1) | 0
    v = (v << 3) | 0
    v = (v << 7) | 0
    v = (v << 2) | 0
    v = (v << 2) | 0
    v = (v << 1) | 0
    v = (v << 3) | 0
    v = (v << 64) | satmask
    v = (v << 32) | sigmask
    v = (v << ncell) | cellmask
    nbits = 73 + 64 + 32 + ncell
    total = 400 * 8
    return (v << (total - nbits)).to_bytes(400, "big")


def _make_op(rng, ident_pool, fail_p, labelmsm=None):
    ident = rng.choice(ident_pool)
    need, p = _payload(rng, ident)
    lm = labelmsm if labelmsm is not None else rng.choice((1, 2))
    if corpus.family(ident) == "msm" and rng.random() < 0.5:
        p = crafted_msm(rng, ident if rng.random() < 0.5 else None)
        need = len(p)
    if rng.random() < 0.07:
        # a type without definition (stub): undefined numbers next to defined families,
        # reserved numbers inside the MSM block, unimplemented 4076 sub-types
        p = corpus.stub_payload(rng)
        need = len(p)
    elif rng.random() < fail_p:
        p = _failing_variant(rng, need, p)
    r = rng.random()
    if r < 0.5:
        return ["msg", p.hex(), lm]
    if r < 0.55:
        return ["str", p.hex(), lm]
    if r < 0.8:
        fr = wire.rtcm_frame(p)
        val = rng.choice((0, 1, 1))
        if rng.random() < 0.15:
            fr = fr[:-1] + bytes([fr[-1] ^ 0x01])  # bad CRC
        return ["parse", fr.hex(), val, lm]
    frames = []
    for _ in range(rng.randrange(1, 5)):
        i2 = rng.choice(ident_pool)
        n2, p2 = _payload(rng, i2)
        if rng.random() < fail_p:
            p2 = _failing_variant(rng, n2, p2)
        fr = wire.rtcm_frame(p2)
        if rng.random() < 0.1:
            fr = wire.flip_bits(fr, [rng.randrange(24, len(fr) * 8)])
        frames.append(fr.hex())
        if rng.random() < 0.15:
            # the same frame again through the same reader: verbatim, or with only its CRC bytes damaged
            fr2 = fr if rng.random() < 0.4 else wire.flip_bits(fr, [rng.randrange((len(fr) - 3) * 8, len(fr) * 8)])
            frames.append(fr2.hex())
        if rng.random() < 0.2:
            frames.append(bytes.fromhex(W.gen_nmea(rng)[1]).hex())
    o = {"validate": rng.choice((0, 1, 1)), "quitonerror": rng.choice((0, 1, 2)), "labelmsm": lm, "parsed": rng.random() < 0.9}
    if r < 0.9:
        return ["iter", frames, o]
    if r < 0.95:
        o = dict(o, seg=rng.choice(("byte", "small", "random", "full")), segseed=rng.getrandbits(32), bufsize=rng.choice((1, 7, 64, 4096)))
        if rng.random() < 0.4:
            o["handover"] = rng.choice((0, 1, 2))  # "through however many reader objects"
        return ["sockiter", frames, o]
    half = max(1, len(frames) // 2)
    return ["feed", [frames[:half], frames[half:]], o]


def _theme_pools(rng, nthreads, index=0):
    idx = _index()
    theme = rng.choice(("same", "same", "msm", "msm", "family", "failok", "mixed", "unknown"))
    if theme == "same":
        # stratified: every identity gets its turn at being parsed by all threads at once
        ident = idx["ids"][(index // 4) % len(idx["ids"])]
        return theme, [[ident]] * nthreads, rng.choice((0.0, 0.2))
    if theme == "msm":
        pool = idx["fam"]["msm"]
        if rng.random() < 0.5:
            one = rng.choice(pool)
            return theme, [[one]] * nthreads, rng.choice((0.0, 0.15))
        return theme, [[rng.choice(pool) for _ in range(3)] for _ in range(nthreads)], rng.choice((0.0, 0.15))
    if theme == "family":
        fam = rng.choice(sorted(idx["fam"]))
        pool = idx["fam"][fam]
        return theme, [[rng.choice(pool) for _ in range(3)] for _ in range(nthreads)], rng.choice((0.0, 0.2))
    if theme == "failok":
        ident = rng.choice(idx["ids"])
        return theme, [[ident]] * nthreads, None  # thread 0 fails, others succeed
    if theme == "unknown":
        pool = idx["ids"]
        return theme, [[rng.choice(pool) for _ in range(4)] for _ in range(nthreads)], 0.3
    return theme, [[rng.choice(idx["ids"]) for _ in range(5)] for _ in range(nthreads)], rng.choice((0.0, 0.1, 0.3))


def generate(master, index, tier):
    rng = R.rng_for(master, PROP, index)
    if index % 4 == 3:
        # sequential history
        idx = _index()
        n = rng.choice((5, 8, 15, 30, 60, 120, 200))
        style = rng.choice(("pairs", "mixed", "allids"))
        ops = []
        if style == "pairs":
            fams = sorted(idx["fam"])
            while len(ops) < n:
                fa, fb = rng.choice(fams), rng.choice(fams)
                ops.append(_make_op(rng, idx["fam"][fa], rng.choice((0.0, 0.5))))
                ops.append(_make_op(rng, idx["fam"][fb], 0.0))
        elif style == "allids":
            ids = list(idx["ids"])
            rng.shuffle(ids)
            for ident in ids[:n]:
                if rng.random() < 0.3:
                    ops.append(_make_op(rng, [ident], 1.0))  # failing parse right before a good one of the same type
                ops.append(_make_op(rng, [ident], 0.0))
        else:
            for _ in range(n):
                ops.append(_make_op(rng, idx["ids"], rng.choice((0.0, 0.0, 0.4))))
        return {"prop": PROP, "mode": "history", "theme": style, "threads": [ops[:n]]}
    nthreads = rng.choice((2, 2, 2, 3, 4))
    theme, pools, fail_p = _theme_pools(rng, nthreads, index)
    threads = []
    for t in range(nthreads):
        nops = rng.choice((1, 1, 2, 3, 6))
        fp = fail_p if fail_p is not None else (0.9 if t == 0 else 0.0)
        lm = None
        if theme == "msm" and rng.random() < 0.6:
            lm = 1 + (t % 2)  # different label options in different threads
        threads.append([_make_op(rng, pools[t], fp, lm) for _ in range(nops)])
    p = rng.choice((0.002, 0.01, 0.03, 0.1))
    return {
        "prop": PROP,
        "mode": "threads",
        "theme": theme,
        "threads": threads,
        "sched": {
            "seed": rng.getrandbits(48),
            "p": p,
            "p_boost": rng.choice((p, 0.2, 0.5)),
            "pct": rng.choice((0, 0, 1, 2, 3, 5)),
            # every other thread run: log-uniform time slices instead of a constant per-line probability
            # negative: slice length measured in fresh (not recently executed) lines
            "slices": rng.choice((300, 3000, -30, -150, -400, -400)) if index % 2 == 1 else 0,
        },
    }


# ---------------------------------------------------------------------------
# execution
# ---------------------------------------------------------------------------


def _first_diff(a, b):
    if a[0] != b[0]:
        return f"{a[0]} vs {b[0]}: {str(a[1:3])[:120]} vs {str(b[1:3])[:120]}"
    if a[0] == "ok":
        if a[3] != b[3]:
            x, y = a[3], b[3]
            i = 0
            while i < len(x) and i < len(y) and x[i] == y[i]:
                i += 1
            return f"attributes differ at char {i}: ...{x[max(0, i - 30):i + 40]!r} vs ...{y[max(0, i - 30):i + 40]!r}"
        return f"fields {[i for i in range(len(a)) if a[i] != b[i]]} differ"
    if a[0] == "events":
        for i, (x, y) in enumerate(zip(a[1], b[1])):
            if x != y:
                if x[0] == "frame" and y[0] == "frame" and x[2] and y[2]:
                    return f"event {i}: " + _first_diff(x[2], y[2])
                return f"event {i}: {str(x)[:100]} vs {str(y)[:100]}"
        return f"{len(a[1])} vs {len(b[1])} events"
    return f"{str(a)[:150]} vs {str(b)[:150]}"


def _run_scenario(scn):
    """runs in a pristine child"""
    install_lock_seam()  # locks the library creates from now on yield the baton instead of blocking
    threads = scn["threads"]
    names = tables_snapshot()
    t0 = tables_items(names)
    switches = []
    sites = set()
    pairs = set()
    steps = 0
    if scn["mode"] == "history" or len(threads) == 1:
        results = [[run_op(op) for op in threads[0]]] if threads else []
    else:
        prefix = os.path.join(os.path.realpath(os.path.join(REPO, "src", "pyrtcm")), "")
        bodies = [(lambda ops=th: [run_op(op) for op in ops]) for th in threads]
        if "switches" in scn:
            sc = Scheduler(prefix, script=scn["switches"])
        else:
            sch = scn["sched"]
            srng = R.random.Random(sch["seed"])
            sc = Scheduler(prefix, rng=srng, p=sch["p"], p_boost=sch["p_boost"], change_points=sch.get("change_points"), slices=sch.get("slices", 0))
        try:
            results = sc.run(bodies)
        except DeadlockDetected as e:
            return {"results": [], "switches": sc.taken, "sites": set(), "pairs": set(), "steps": sc.step, "changed": [], "deadlock": str(e)[:200]}
        switches = sc.taken
        sites = set(sc.switch_sites)
        pairs = {a + "|" + b for a, b in sc.overlap_pairs}
        steps = sc.step
    t1 = tables_items(names)
    changed = sorted(f"{m.split('.')[-1]}.{k}" for (m, k) in t0 if t0[(m, k)] != t1[(m, k)])
    return {"results": results, "switches": switches, "sites": sites, "pairs": pairs, "steps": steps, "changed": changed}


def _count_steps(scn):
    """dry run without switches, in a pristine child: number of line events"""
    prefix = os.path.join(os.path.realpath(os.path.join(REPO, "src", "pyrtcm")), "")
    install_lock_seam()
    dry = Scheduler(prefix, script=[])
    dry.run([(lambda ops=th: [run_op(op) for op in ops]) for th in scn["threads"]])
    return dry.step


def _reference_op(op):
    """the operation whose outcome (computed alone, in a pristine process) is the
    expected one: the same bytes and options through ONE reader object"""
    if op[0] == "sockiter" and op[2].get("handover") is not None:
        o = dict(op[2])
        del o["handover"]
        return [op[0], op[1], o]
    return op


def execute(scn):
    threads = scn["threads"]
    all_ops = [op for th in threads for op in th]
    base = baselines([_reference_op(op) for op in all_ops])
    expect = {repr(op): b for op, b in zip(all_ops, base)}
    viol = None
    run_scn = scn
    if scn["mode"] == "threads" and "switches" not in scn and scn["sched"].get("pct") and not scn["sched"].get("slices") and len(threads) > 1:
        total = max(1, _in_child(_count_steps, scn))
        srng = R.random.Random(scn["sched"]["seed"] ^ 0x5A5A)
        run_scn = dict(scn)
        run_scn["sched"] = dict(scn["sched"], change_points=[srng.randrange(total) for _ in range(scn["sched"]["pct"])])
    try:
        out = _in_child(_run_scenario, run_scn)
    except HarnessError as e:
        if "SchedulerError" in str(e):
            raise
        raise
    results = out["results"]
    switches = out["switches"]
    if out.get("deadlock"):
        viol = violation(PROP, "deadlock", f"every worker thread is blocked on a lock held by another one: {out['deadlock']}")
    for t, (th, res) in enumerate(zip(threads, results)):
        for i, (op, got) in enumerate(zip(th, res)):
            want = expect[repr(op)]
            if got != want:
                ident = ""
                if op[0] in ("msg", "str"):
                    ident = wire.frame_identity(b"\xd3\x00\x00" + bytes.fromhex(op[1]) + b"\x00\x00\x00") or ""
                elif op[0] == "parse":
                    ident = wire.frame_identity(bytes.fromhex(op[1])) or ""
                viol = violation(
                    PROP,
                    "result-differs",
                    f"{scn['mode']} run: thread {t} op {i} ({op[0]} {ident}) differs from the same bytes parsed alone in a fresh process: {_first_diff(got, want)}",
                )
                break
        if viol:
            break
    if viol is None and out["changed"]:
        viol = violation(PROP, "tables-modified", f"module-level tables changed by parsing: {out['changed'][:6]}")
    nfail = sum(1 for b in base if b[0] == "exc" or (b[0] == "events" and any(e[0] == "exc" for e in b[1])))
    explicit = {k: v for k, v in scn.items() if k != "sched"}
    if scn["mode"] == "threads":
        explicit["switches"] = switches
    counters = {
        "mode:" + scn["mode"]: 1,
        "theme:" + scn.get("theme", "?"): 1,
        "ops": len(all_ops),
        "failing_ops": nfail,
        "context_switches": len(switches),
        "line_events": out["steps"],
        "baseline_forks": _STATS["forks"],
    }
    _STATS["forks"] = 0
    idents = set()
    for op in all_ops:
        if op[0] in ("msg", "str"):
            i = wire.frame_identity(b"\xd3\x00\x00" + bytes.fromhex(op[1]) + b"\x00\x00\x00")
        elif op[0] == "parse":
            i = wire.frame_identity(bytes.fromhex(op[1]))
        else:
            i = None
        if i:
            idents.add(i)
    pairs = out["pairs"]
    nontrivial = (len(pairs) > 0) if scn["mode"] == "threads" else (len(all_ops) >= 2 and nfail >= 1)
    return {
        "digest": digest_of((switches, results, out["changed"], viol and viol["class"])),
        "violation": viol,
        "explicit": explicit,
        "stats": {
            "nontrivial": nontrivial,
            "scn_d64": d64((threads, switches)),
            "counters": counters,
            "sets": {"switch_sites": out["sites"], "overlap_function_pairs": pairs, "identities_parsed": idents},
            "sim_seconds": 0.0,
        },
    }


def simplify(scn):
    threads = scn["threads"]
    for t, th in enumerate(threads):
        if len(th) > 1:
            for i in range(len(th)):
                cand = dict(scn)
                cand["threads"] = threads[:t] + [th[:i] + th[i + 1 :]] + threads[t + 1 :]
                yield cand
        for i, op in enumerate(th):
            if op[0] in ("iter", "feed", "sockiter"):
                frames = op[1] if op[0] != "feed" else [f for ch in op[1] for f in ch]
                for f in frames:
                    cand = dict(scn)
                    new = ["parse", f, op[2]["validate"], op[2]["labelmsm"]]
                    cand["threads"] = threads[:t] + [th[:i] + [new] + th[i + 1 :]] + threads[t + 1 :]
                    yield cand
            if op[0] == "parse":
                fr = bytes.fromhex(op[1])
                if wire.frame_wellformed(fr) == "":
                    cand = dict(scn)
                    cand["threads"] = threads[:t] + [th[:i] + [["msg", fr[3:-3].hex(), op[3]]] + th[i + 1 :]] + threads[t + 1 :]
                    yield cand
    if scn["mode"] == "threads" and len(threads) == 1:
        cand = dict(scn)
        cand["mode"] = "history"
        cand.pop("switches", None)
        yield cand


def sample_view(scn, out):
    ex = out["explicit"]

    def brief(op):
        if op[0] in ("msg", "str"):
            return [op[0], wire.frame_identity(b"\xd3\x00\x00" + bytes.fromhex(op[1]) + b"\x00\x00\x00"), len(op[1]) // 2, op[2]]
        if op[0] == "parse":
            return [op[0], wire.frame_identity(bytes.fromhex(op[1])), len(op[1]) // 2, op[2], op[3]]
        return [op[0], len(op[1]), op[2]]

    return {
        "mode": ex["mode"],
        "theme": ex.get("theme"),
        "threads": [[brief(op) for op in th[:8]] for th in ex["threads"]],
        "switches": ex.get("switches", [])[:30],
        "n_switches": len(ex.get("switches", [])),
        "violation": out["violation"] and out["violation"]["class"],
    }
