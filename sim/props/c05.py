"""C05 -- a damaged frame costs exactly that frame; error modes differ only in
reporting.  The line model damages a seeded subset of frames in flight with
guaranteed-detectable patterns behind the 3-byte header; no other fault, so
every expected effect is attributable to damage alone."""

from .. import readerworld as W
from .. import rng as R
from .. import wire
from ..runner import d64, digest_of, violation
from .c02 import intra_frame_boundaries, run_reader

PROP = "C05"
RUNS = {"quick": 48000, "thorough": 1200000}
BLOCK = {"quick": 200, "thorough": 2000}
SHRINK_LISTS = ["items", "decisions"]
RULE = (
    "one run = a seeded script of valid frames (all corpus classes), optionally interleaved with complete NMEA/UBX, in "
    "which the line model damages a seeded subset of frames (1, 2 or 3 flipped bits or one burst <= 24 bits at a bit "
    "offset >= 24 of that frame, anchored at first/last payload bit, payload/CRC boundary, first/last CRC bit or "
    "anywhere), delivered over BytesIO / BufferedReader / socket with seeded segmentation, read in ignore, log(+handler), "
    "log(no handler) or raise mode by an application that resumes after every exception. distinct = distinct (items "
    "incl. damage, stream kind, bufsize, arrival schedule, mode) digests; non-trivial = >= 1 damaged frame AND >= 1 "
    "good frame delivered after a damaged one."
)
ASSUMPTIONS = [
    "damage patterns are those CRC-24Q is guaranteed to detect (C08 is relied upon, not established here)",
    "the 3 header bytes are never damaged, so the frame is still consumed by its declared length",
    "only the number of handler invocations is checked, not what is passed to the handler",
]


def generate(master, index, tier):
    rng = R.rng_for(master, PROP, index)
    n = rng.choice((1, 2, 3, 5, 8, 12, 20))
    p_foreign = rng.choice((0.0, 0.2, 0.4))
    p_dmg = rng.choice((0.1, 0.3, 0.5, 0.9, 1.0))
    items = []
    p_copy = rng.choice((0.0, 0.0, 0.2, 0.5))
    for _ in range(n):
        r = rng.random()
        prev = [it for it in items if it[0] == "frame"]
        if prev and rng.random() < p_copy:
            # an earlier good frame again: verbatim, or damaged in payload only / CRC only
            src = prev[-1] if rng.random() < 0.5 else rng.choice(prev)
            if rng.random() < 0.3:
                items.append([src[0], src[1], src[2]])
            else:
                raw = bytes.fromhex(src[1])
                nb = len(raw) * 8
                if rng.random() < 0.5 and nb > 48:
                    dmg = wire.flip_bits(raw, sorted({rng.randrange(24, nb - 24) for _ in range(rng.choice((1, 2, 3)))}))
                    tag = "copy:payload"
                else:
                    dmg = wire.flip_bits(raw, sorted({rng.randrange(nb - 24, nb) for _ in range(rng.choice((1, 2, 3)))}))
                    tag = "copy:crc"
                items.append(["dmg", dmg.hex(), tag + "/" + src[2]])
        elif r < p_foreign / 2:
            items.append(W.gen_nmea(rng))
        elif r < p_foreign:
            items.append(W.gen_ubx(rng))
        else:
            it = W.gen_frame(rng)
            if rng.random() < p_dmg:
                dmg, tag = W.damage_detectable(rng, bytes.fromhex(it[1]))
                it = ["dmg", dmg.hex(), tag + "/" + it[2]]
            items.append(it)
    if index % 100 == 7:
        # deep damage history: > 1000 consecutive damaged frames, then a good one
        f = wire.rtcm_frame(wire.rtcm_payload(rng.choice((1005, 999, 1077)), rng.getrandbits(40), rng.choice((2, 5, 8))))
        items = []
        for _ in range(rng.choice((300, 1100, 1600))):
            dmg, tag = W.damage_detectable(rng, f)
            items.append(["dmg", dmg.hex(), tag + "/long"])
        items.append(W.gen_frame(rng))
    if index % 100 == 57:
        # long-lived connection: hundreds to thousands of frames, sparse damage
        pd = rng.choice((0.002, 0.01, 0.05, 0.3))
        items = []
        for it in W.gen_long_valid_run(rng, rng.choice((150, 300, 700, 1500, 3000))):
            if it[0] == "frame" and rng.random() < pd:
                dmg, tag = W.damage_detectable(rng, bytes.fromhex(it[1]))
                it = ["dmg", dmg.hex(), tag + "/" + it[2]]
            items.append(it)
    mode = rng.choice(("ignore", "log+handler", "log+handler", "log", "raise", "raise"))
    q = {"ignore": 0, "log+handler": 1, "log": 1, "raise": 2}[mode]
    kind = rng.choice(("bytesio", "buffered", "socket", "socket"))
    aims, poll = [], 0
    if kind == "socket" and rng.random() < 0.3:
        # timeouts / OS errors from recv exactly at item boundaries, application polls again:
        # nothing is in flight there, so the expected events are those of the fault-free run
        aims, poll = W.gen_boundary_faults(rng, items, W.SOCK_FAULTS)
    return {
        "prop": PROP,
        "kind": kind,
        "poll": poll,
        "bufsize": rng.choice((1, 2, 3, 5, 7, 64, 512, 1029, 4096)),
        "rawbuf": rng.choice((1, 2, 8, 64, 8192)),
        "items": items,
        "driver": rng.choice(("iterate", "iterate", "read")),
        "opts": {"quitonerror": q, "parsed": True, "labelmsm": rng.choice((1, 2)), "handler": rng.choice(W.HANDLER_KINDS) if (mode in ("log+handler", "ignore") or (mode == "raise" and rng.random() < 0.5)) else False},
        "sched": {"seed": rng.getrandbits(48), "seg": rng.choice(("full", "byte", "small", "random", "mixed")), "aims": aims},
    }


def execute(scn):
    items = scn["items"]
    data = W.wire_of(items)
    events, st, calls, budget_err = run_reader(scn, data)
    q = scn["opts"]["quitonerror"]
    viol = None
    if budget_err:
        viol = violation(PROP, "non-termination", budget_err)
        events = []
    script = [("frame", bytes.fromhex(it[1])) if it[0] == "frame" else ("dmg", bytes.fromhex(it[1])) for it in items if it[0] in ("frame", "dmg")]
    ndmg = sum(1 for s in script if s[0] == "dmg")
    good = [s[1] for s in script if s[0] == "frame"]
    obs = []
    for ev in events:
        if ev[0] == "frame":
            obs.append(("frame", bytes(ev[1])))
        elif ev[0] == "raise":
            obs.append(("raise", ev[1]))
    if viol is None and q in (0, 1):
        for x in obs:
            if x[0] == "raise":
                viol = violation(PROP, f"exception-in-quiet-mode:{type(x[1]).__name__}", f"quitonerror={q} but {type(x[1]).__name__} left the reader: {x[1]}")
                break
        got = [x[1] for x in obs if x[0] == "frame"]
        if viol is None and got != good:
            i = 0
            while i < len(got) and i < len(good) and got[i] == good[i]:
                i += 1
            if i < len(got) and any(got[i] == s[1] for s in script if s[0] == "dmg"):
                viol = violation(PROP, "damaged-frame-delivered", f"position {i}: a damaged frame (len {len(got[i])}) was returned")
            elif i >= len(got):
                viol = violation(PROP, "good-frame-lost", f"undamaged frame {i} of {len(good)} (len {len(good[i])}) not returned; {len(got)} returned in all")
            else:
                viol = violation(PROP, "frames-differ", f"position {i}: returned len {len(got[i])}, expected undamaged frame len {len(good[i]) if i < len(good) else None}")
        if viol is None and scn["opts"].get("handler"):
            want = ndmg if q == 1 else 0
            if len(calls) != want:
                viol = violation(PROP, "handler-count", f"error handler called {len(calls)} times, {want} expected ({ndmg} damaged frames, quitonerror={q})")
    elif viol is None:
        import pyrtcm.exceptions as ex

        i = 0
        for kind, raw in script:
            if i >= len(obs):
                viol = violation(PROP, "raise-mode-sequence", f"script item {i} ({kind}, len {len(raw)}) produced no event: reader stopped after {len(obs)} events")
                break
            o = obs[i]
            if kind == "frame":
                if o[0] != "frame" or o[1] != raw:
                    what = f"raise {type(o[1]).__name__}" if o[0] == "raise" else f"frame len {len(o[1])}"
                    viol = violation(PROP, "raise-mode-sequence", f"event {i}: expected good frame len {len(raw)}, got {what}")
                    break
            else:
                if o[0] != "raise":
                    viol = violation(PROP, "raise-mode-no-raise", f"event {i}: damaged frame did not raise; got frame len {len(o[1])}")
                    break
                if not isinstance(o[1], ex.RTCMParseError):
                    viol = violation(PROP, f"raise-mode-wrong-type:{type(o[1]).__name__}", f"event {i}: damaged frame raised {type(o[1]).__name__}: {o[1]}")
                    break
            i += 1
        if viol is None and len(obs) > len(script):
            viol = violation(PROP, "raise-mode-sequence", f"{len(obs) - len(script)} extra events after the script was exhausted")
        if viol is None and calls:
            viol = violation(PROP, "handler-count", f"error handler called {len(calls)} times in raise mode")
    # reach
    after = 0
    seen_dmg = False
    for kind, raw in script:
        if kind == "dmg":
            seen_dmg = True
        elif seen_dmg:
            after += 1
    intra = intra_frame_boundaries(st, [["bad" if it[0] == "dmg" else it[0], it[1], it[2]] for it in items])
    taken = st.link.taken if st.link else []
    explicit = {k: v for k, v in scn.items() if k != "sched"}
    explicit["decisions"] = taken
    bfaults = sum(st.link.fired.values()) if st.link else 0
    counters = {"boundary_faults_fired": bfaults, "runs_with_boundary_faults": 1 if bfaults else 0, "kind:" + scn["kind"]: 1, "mode:q%d%s" % (q, "+h" if scn["opts"].get("handler") else ""): 1, "damaged_frames": ndmg, "good_frames": len(good), "good_after_damaged": after, "intra_frame_boundaries": intra}
    sets = {"damage_kinds": {it[2].split("/")[0] for it in items if it[0] == "dmg"}}
    evd = [(o[0], o[1] if o[0] == "frame" else type(o[1]).__name__) for o in obs]
    return {
        "digest": digest_of((st.link.log if st.link else None, evd, len(calls), viol and viol["class"])),
        "violation": viol,
        "explicit": explicit,
        "stats": {
            "nontrivial": ndmg > 0 and after > 0 and any(o[0] == "frame" for o in obs),
            "scn_d64": d64((items, scn["kind"], scn["bufsize"], scn.get("rawbuf"), taken, sorted(scn["opts"].items()), scn.get("driver"), scn.get("poll", 0))),
            "counters": counters,
            "sets": sets,
            "sim_seconds": 0.0,
        },
    }


def simplify(scn):
    items = scn["items"]
    for i, it in enumerate(items):
        raw = bytes.fromhex(it[1])
        if it[0] == "frame" and len(raw) > 8 and it[2] != "min":
            cand = dict(scn)
            cand["items"] = items[:i] + [["frame", wire.rtcm_frame(wire.rtcm_payload(999, 0, 2)).hex(), "min"]] + items[i + 1 :]
            yield cand
        if it[0] == "dmg" and len(raw) > 8 and it[2] != "min":
            f = wire.rtcm_frame(wire.rtcm_payload(998, 0, 2))
            cand = dict(scn)
            cand["items"] = items[:i] + [["dmg", wire.flip_bits(f, [len(f) * 8 - 1]).hex(), "min"]] + items[i + 1 :]
            yield cand
    for key, val in (("kind", "bytesio"), ("bufsize", 4096), ("driver", "iterate")):
        if scn.get(key) != val:
            cand = dict(scn)
            cand[key] = val
            yield cand
    if scn.get("decisions"):
        cand = dict(scn)
        cand["decisions"] = []
        yield cand


def sample_view(scn, out):
    ex = out["explicit"]
    return {
        "stream_kind": ex["kind"],
        "bufsize": ex["bufsize"],
        "reader_options": ex["opts"],
        "items": [[it[0], len(it[1]) // 2, it[2]] for it in ex["items"][:25]],
        "arrival_schedule": [d[1] if d[0] == "d" else d[0] for d in ex["decisions"][:40]],
        "violation": out["violation"] and out["violation"]["class"],
    }
