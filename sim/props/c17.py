"""C17 -- reader options have only their documented effect.

Metamorphic re-execution of ONE seeded world (same bytes, same stream kind,
same arrival schedule) under reader configurations that differ in exactly one
option.  Determinism of the simulator is what makes the runs comparable."""

from .. import readerworld as W
from .. import rng as R
from .. import wire
from ..runner import d64, digest_of, violation
from .c02 import intra_frame_boundaries, run_reader

PROP = "C17"
RUNS = {"quick": 24000, "thorough": 500000}
BLOCK = {"quick": 100, "thorough": 1000}
TRACE_SAMPLE = 60  # reach probe runs single-process under settrace: keep it cheap
SHRINK_LISTS = ["items", "decisions"]
RULE = (
    "one run = one seeded world (valid frames of all corpus classes + complete NMEA/UBX + inert noise; a seeded subset "
    "of frames gets wrong CRC bytes, payload untouched = wire S'; S = same with right CRCs) executed 5 times over the "
    "same stream kind and the same recorded arrival schedule: (validate=1,S) (validate=0,S') (parsed=False,S) "
    "(validate=1,S') (parsed=False,S'); label option / error mode / handler seeded and held equal. distinct = distinct "
    "(items incl. CRC damage, stream kind, bufsize, arrival schedule, option context) digests; non-trivial = >= 1 "
    "frame with wrong CRC AND >= 1 frame delivered AND (>= 1 foreign item or >= 1 arrival boundary inside a frame)."
)
ASSUMPTIONS = [
    "wrong CRC bytes differ from the right ones in an arbitrary way; the payload is untouched",
    "frames are attributed to script items by order (ground-truth offsets); 'bytes taken per frame' is decided by every frame behind a wrong-CRC / unparsed one still being delivered intact and in order, plus each frame having been fully handed over when returned",
]


def generate(master, index, tier):
    rng = R.rng_for(master, PROP, index)
    n = rng.choice((1, 2, 3, 5, 8, 12))
    items = W.gen_wellformed_items(rng, n, p_filler=rng.choice((0.0, 0.0, 0.15)), end_with_frame=0.8)
    p_bad = rng.choice((0.2, 0.5, 1.0))
    crc_style = rng.choice(("random", "random", "const", "copy", "mixed"))
    const = rng.choice((b"\x00\x00\x00", b"\xff\xff\xff", bytes(rng.getrandbits(8) for _ in range(3))))
    prev_crc = None
    for it in items:
        if it[0] == "frame":
            this_crc = bytes.fromhex(it[1])[-3:]
        if it[0] == "filler" and rng.random() < 0.5:
            # a too-short frame with a wrong CRC: nothing to deliver in any configuration, but it
            # must still be consumed by its declared length in every configuration
            raw = bytes.fromhex(it[1])
            it[1] = (raw[:-3] + bytes([raw[-3] ^ 0x40, rng.choice((0xD3, 0x24, raw[-2])), raw[-1]])).hex()
            it[2] += "+badcrc"
        if it[0] == "frame" and rng.random() < p_bad:
            raw = bytes.fromhex(it[1])
            for _try in range(20):
                st = crc_style if crc_style != "mixed" else rng.choice(("random", "const", "copy"))
                if st == "const":
                    bad = const  # several frames of a run share the same wrong CRC bytes
                elif st == "copy" and prev_crc is not None:
                    bad = prev_crc  # the CRC bytes of the previous frame in the stream
                else:
                    bad = bytes(rng.getrandbits(8) for _ in range(3)) if rng.random() < 0.5 else wire.flip_bits(raw[-3:], [rng.randrange(24)])
                if bad != raw[-3:]:
                    break
            else:
                bad = wire.flip_bits(raw[-3:], [0])
            it[0] = "crcbad"
            it.append(bad.hex())
        if it[0] in ("frame", "crcbad"):
            prev_crc = this_crc
    return {
        "prop": PROP,
        "kind": rng.choice(("bytesio", "buffered", "socket", "socket")),
        "bufsize": rng.choice((1, 2, 3, 5, 7, 64, 512, 4096)),
        "rawbuf": rng.choice((1, 8, 64, 8192)),
        "items": items,
        "driver": rng.choice(("iterate", "read")),
        "opts": {"quitonerror": rng.choice((0, 1, 2)), "labelmsm": rng.choice((1, 2)), "handler": rng.choice((False, False) + W.HANDLER_KINDS)},
        "sched": {"seed": rng.getrandbits(48), "seg": rng.choice(("full", "byte", "small", "random", "mixed"))},
    }


def _frames(events):
    # frames too short to carry a message number (fillers) are outside the statement: whether
    # they are delivered differs legitimately between parsed=True (rejected) and parsed=False
    return [(bytes(e[1]), e[2], e[3]) for e in events if e[0] == "frame" and wire.frame_identity(bytes(e[1])) is not None]


def execute(scn):
    from pyrtcm import RTCMReader

    items = scn["items"]
    good_items = [[("frame" if it[0] == "crcbad" else it[0]), it[1], it[2]] for it in items]
    S = W.wire_of(good_items)
    bad_items = []
    for it in items:
        if it[0] == "crcbad":
            raw = bytes.fromhex(it[1])
            bad_items.append(["bad", (raw[:-3] + bytes.fromhex(it[3])).hex(), it[2]])
        else:
            bad_items.append(it[:3])
    S2 = W.wire_of(bad_items)
    o = dict(scn["opts"])
    viol = None

    def run(data, validate, parsed, base):
        oo = dict(o, parsed=parsed)
        return run_reader(base, data, validate=validate, opts=oo)

    # run A decides (or replays) the arrival schedule; all others replay A's
    evA, stA, callsA, err = run(S, 1, True, scn)
    taken = stA.link.taken if stA.link else []
    base = {k: v for k, v in scn.items() if k != "sched"}
    base["decisions"] = taken
    evB, stB, callsB, errB = run(S2, 0, True, base)
    evC, stC, _c, errC = run(S, 1, False, base)
    evD, stD, callsD, errD = run(S2, 1, True, base)
    evE, stE, _e, errE = run(S2, 1, False, base)
    for e in (err, errB, errC, errD, errE):
        if e and viol is None:
            viol = violation(PROP, "non-termination", e)
    nbad = sum(1 for it in items if it[0] == "crcbad")
    nA = 0
    if viol is None:
        A, B, C, D, E = (_frames(x) for x in (evA, evB, evC, evD, evE))
        nA = len(A)
        expected = [bytes.fromhex(it[1]) for it in good_items if it[0] == "frame"]
        expected2 = [bytes.fromhex(it[1]) for it in bad_items if it[0] in ("frame", "bad")]
        untouched = [bytes.fromhex(it[1]) for it in bad_items if it[0] == "frame"]
        # 1. validate=0 over S' == validate=1 over S, up to the CRC bytes
        if [f[0] for f in A] != expected:
            viol = violation(PROP, "baseline", f"validate=1/parsed=True over S returned {len(A)} frames, {len(expected)} emitted (C02 territory)")
        elif [f[0] for f in B] != expected2:
            i = 0
            while i < len(B) and i < len(expected2) and B[i][0] == expected2[i]:
                i += 1
            viol = violation(PROP, "validate0-frames", f"validate=0 over S' returned {len(B)} frames, {len(expected2)} in the stream; first difference at {i}")
        else:
            for i, (fa, fb) in enumerate(zip(A, B)):
                if fa[0][:-3] != fb[0][:-3]:
                    viol = violation(PROP, "validate0-raw", f"frame {i}: raw differs beyond the CRC bytes")
                    break
                if W.canon_msg(fa[1]) != W.canon_msg(fb[1]):
                    viol = violation(PROP, "validate0-decoding", f"frame {i} (id {wire.frame_identity(fa[0])}): decoded differently with validate=0 and wrong CRC than with validate=1 and right CRC")
                    break
        # static parser, per frame
        if viol is None:
            for i, (g, b) in enumerate(zip(expected, expected2)):
                try:
                    m1 = RTCMReader.parse(g, validate=1, labelmsm=o.get("labelmsm", 1))
                    m0 = RTCMReader.parse(b, validate=0, labelmsm=o.get("labelmsm", 1))
                except Exception as e:  # pylint: disable=broad-except
                    viol = violation(PROP, f"static-parse:{type(e).__name__}", f"frame {i}: static parser raised {type(e).__name__}: {e}")
                    break
                if W.canon_msg(m1) != W.canon_msg(m0):
                    viol = violation(PROP, "static-parse-decoding", f"frame {i}: parse(f', validate=0) differs from parse(f, validate=1)")
                    break
        # 2. parsed=False over S: same raws, no parsed object
        if viol is None:
            if [f[0] for f in C] != [f[0] for f in A]:
                viol = violation(PROP, "parsed-false-frames", f"parsed=False returned {len(C)} frames vs {len(A)} with parsing on (or different bytes/order)")
            elif any(f[1] is not None for f in C):
                viol = violation(PROP, "parsed-false-object", "parsed=False returned a message object")
        # 3. bytes taken per frame.  Frames are attributed to script items by
        # order (ground truth), never by searching for their bytes: the same
        # frame may legitimately occur twice in a stream (repeated, or embedded
        # in a UBX payload), which makes a byte search ambiguous.
        if viol is None:
            if [f[0] for f in E] != expected2 or any(f[1] is not None for f in E):
                viol = violation(PROP, "parsed-false-frames", f"parsed=False over S' returned {len(E)} frames, {len(expected2)} in the stream")
            elif [f[0] for f in D] != untouched:
                i = 0
                while i < len(D) and i < len(untouched) and D[i][0] == untouched[i]:
                    i += 1
                viol = violation(PROP, "validate1-frames", f"validate=1 over S' returned {len(D)} frames, {len(untouched)} have an untouched CRC; first difference at {i}")
            else:
                # every delivered frame must have been fully handed over when it was returned
                offs = [o for o, it in zip(W.offsets_of(bad_items), bad_items) if it[0] in ("frame", "bad")]
                for name, frames in (("validate=0", B), ("parsed=False", E)):
                    for (s0, e0), f in zip(offs, frames):
                        if f[2] < e0:
                            viol = violation(PROP, "extents-differ", f"{name}: frame at [{s0},{e0}) returned when only {f[2]} bytes had been handed to the reader")
                            break
                    if viol:
                        break
    intra = intra_frame_boundaries(stA, good_items)
    foreign = sum(1 for it in items if it[0] in ("nmea", "ubx", "noise"))
    explicit = dict(base)
    counters = {"kind:" + scn["kind"]: 1, "crcbad_frames": nbad, "frames": nA, "intra_frame_boundaries": intra, "executions": 5}

    def evd(evs):
        return [(e[0], bytes(e[1]) if e[0] == "frame" else (type(e[1]).__name__ if e[0] == "raise" else None)) for e in (evs or [])]

    return {
        "digest": digest_of((stA.link.log if stA.link else None, evd(evA), evd(evB), evd(evC), evd(evD), evd(evE), viol and viol["class"])),
        "violation": viol,
        "explicit": explicit,
        "stats": {
            "nontrivial": nbad > 0 and nA > 0 and (foreign > 0 or intra > 0),
            "scn_d64": d64((items, scn["kind"], scn["bufsize"], scn.get("rawbuf"), taken, sorted(o.items()), scn.get("driver"))),
            "counters": counters,
            "sim_seconds": 0.0,
        },
    }


def simplify(scn):
    items = scn["items"]
    for i, it in enumerate(items):
        raw = bytes.fromhex(it[1])
        if it[0] in ("frame", "crcbad") and len(raw) > 8 and it[2] != "min":
            f = wire.rtcm_frame(wire.rtcm_payload(999, 0, 2))
            new = ["frame", f.hex(), "min"] if it[0] == "frame" else ["crcbad", f.hex(), "min", wire.flip_bits(f[-3:], [0]).hex()]
            cand = dict(scn)
            cand["items"] = items[:i] + [new] + items[i + 1 :]
            yield cand
        if it[0] == "crcbad":
            cand = dict(scn)
            cand["items"] = items[:i] + [["frame", it[1], it[2]]] + items[i + 1 :]
            yield cand
    for key, val in (("kind", "bytesio"), ("bufsize", 4096), ("driver", "iterate")):
        if scn.get(key) != val:
            cand = dict(scn)
            cand[key] = val
            yield cand
    if scn.get("decisions"):
        cand = dict(scn)
        cand["decisions"] = []
        yield cand


def sample_view(scn, out):
    ex = out["explicit"]
    return {
        "stream_kind": ex["kind"],
        "bufsize": ex["bufsize"],
        "option_context": ex["opts"],
        "items": [[it[0], len(it[1]) // 2, it[2]] for it in ex["items"][:25]],
        "arrival_schedule": [d[1] if d[0] == "d" else d[0] for d in ex["decisions"][:40]],
        "violation": out["violation"] and out["violation"]["class"],
    }
