"""C01 -- the reader delivers only intact, exactly delimited RTCM3 frames.

Hostile peer script over faulty transports; safety oracle on what is
*delivered* (which frames are delivered under faults is C02/C05's business)."""

from .. import readerworld as W
from .. import rng as R
from .. import wire
from ..runner import d64, digest_of, violation
from ..transports import SimBudgetExceeded

PROP = "C01"
RUNS = {"quick": 48000, "thorough": 1200000}
BLOCK = {"quick": 200, "thorough": 2000}
SHRINK_LISTS = ["items", "decisions"]
RULE = (
    "one run = a seeded hostile script (valid frames of all corpus classes; frames with bit flips anywhere, rewritten "
    "length, truncation, bytes inserted/dropped, wrong CRC; near-frames with reserved bits set and a matching CRC; "
    "CRC-valid frames with undecodable payloads; fillers; complete and cut NMEA/UBX, UBX embedding valid frames; "
    "sync-dense junk; inert noise) delivered over BytesIO / BufferedReader-over-chunky-raw / serial port double (short "
    "reads, empty reads, close) / socket double (segmentation, TimeoutError, OSError family, close) with faults aimed "
    "inside header, length, payload, CRC and at frame boundaries, read by a seeded application loop (iterate, or poll "
    "that resumes after empty results, resuming after exceptions). distinct = distinct (items, stream kind, bufsize, "
    "transport schedule, options, driver) digests; non-trivial = >= 1 frame delivered AND (>= 1 fault fired or >= 1 "
    "arrival boundary strictly inside a frame or >= 1 damaged/junk item in the script)."
)
ASSUMPTIONS = [
    "validate=1 and parsed=True (the statement speaks of (raw, parsed) pairs with checksum validation on; with parsed=False pyrtcm documents that no validation takes place)",
    "'input byte stream' = the bytes the transport double actually handed to pyrtcm, in order",
    "transport doubles model legal streams only (never more than requested, never rewinding)",
]


def generate(master, index, tier):
    rng = R.rng_for(master, PROP, index)
    n = rng.choice((1, 2, 3, 5, 8, 12, 20, 30))
    items = W.gen_hostile_items(rng, n)
    if index % 200 == 57:
        # long-lived connection: a long run of valid frames with hostile items sprinkled in
        items = W.gen_long_valid_run(rng, rng.choice((150, 300, 700, 1500)))
        for _ in range(rng.choice((0, 1, 3, 10))):
            items.insert(rng.randrange(len(items) + 1), W.gen_bad(rng))
    kind = rng.choice(("bytesio", "buffered", "serial", "serial", "socket", "socket"))
    fault_free = rng.random() < 0.3
    sched = W.gen_fault_sched(rng, kind, items, fault_free)
    if kind == "serial":
        sched["seg"] = rng.choice(("full", "full", "full", "full", "random", "small"))
    return {
        "prop": PROP,
        "kind": kind,
        "bufsize": rng.choice((1, 2, 3, 5, 7, 64, 512, 4096)),
        "rawbuf": rng.choice((1, 8, 64, 8192)),
        "items": items,
        "driver": rng.choice(("iterate", "read", "read")),
        "max_none": rng.choice((0, 1, 3, 8)),
        "opts": {"quitonerror": rng.choice((0, 1, 2)), "labelmsm": rng.choice((1, 2)), "handler": rng.choice((False, False) + W.HANDLER_KINDS)},
        "sched": sched,
    }


def check_delivery(prop, raw, parsed, handed, end_prev, upto):
    """the C01 safety oracle for one delivered pair.  Returns (violation or
    None, new end_prev, offset)"""
    raw = bytes(raw)
    why = wire.frame_wellformed(raw)
    if why:
        return violation(prop, "malformed-frame", f"delivered {len(raw)} bytes {raw[:12].hex()}.. not a well-formed frame: {why}"), end_prev, -1
    a = handed.find(raw, end_prev, upto)
    if a < 0:
        if handed.find(raw, 0, upto) >= 0:
            return (
                violation(prop, "overlap-or-order", f"delivered frame (len {len(raw)}) occurs in the input only before offset {end_prev}, where the previous delivered frame ended"),
                end_prev,
                -1,
            )
        return violation(prop, "not-a-slice", f"delivered frame (len {len(raw)}, {raw[:8].hex()}..) is not a contiguous slice of the {upto} bytes handed to the reader so far"), end_prev, -1
    if parsed is None:
        return violation(prop, "no-parsed-object", "validate=1, parsed=True but no message object returned"), end_prev, a
    try:
        pl = bytes(parsed.payload)
        ident = str(parsed.identity)
    except Exception as e:  # pylint: disable=broad-except
        return violation(prop, "parsed-unusable", f"payload/identity of the returned message raised {type(e).__name__}: {e}"), end_prev, a
    if pl != raw[3:-3]:
        return violation(prop, "payload-mismatch", f"parsed.payload ({len(pl)} bytes) differs from the bytes carried by the delivered frame ({len(raw) - 6} bytes)"), end_prev, a
    no = wire.frame_msgno(raw)
    lead = ident.split("_")[0]
    if no is None or lead != str(no):
        return violation(prop, "number-mismatch", f"identity {ident!r} but the frame carries message number {no}"), end_prev, a
    return None, a + len(raw), a


def execute(scn):
    from pyrtcm import RTCMReader

    items = scn["items"]
    data = W.wire_of(items)
    kind = scn["kind"]
    decider = W.make_decider(scn, kind)
    budget = 8 * len(data) + 40 * len(scn.get("decisions", scn.get("sched", {}).get("aims", ()))) + 800
    st = W.Stream(kind, data, decider, budget, rawbuf=scn.get("rawbuf", 64))
    o = scn["opts"]
    kwf, calls = W.make_handler(o.get("handler"))
    viol = None
    events = []
    try:
        rd = RTCMReader(st.obj, validate=1, quitonerror=o["quitonerror"], labelmsm=o.get("labelmsm", 1), parsed=True, bufsize=scn.get("bufsize", 4096), **kwf())
        events = W.drive(rd, st, scn.get("driver", "iterate"), scn.get("max_none", 0))
    except SimBudgetExceeded as e:
        viol = violation(PROP, "non-termination", str(e))
    handed = st.handed()
    end_prev = 0
    delivered = 0
    extents = []
    for ev in events:
        if ev[0] != "frame":
            continue
        delivered += 1
        v, end_prev, a = check_delivery(PROP, ev[1], ev[2], handed, end_prev, ev[3])
        extents.append(a)
        if v is not None and viol is None:
            viol = v
            break
    sites = W.fault_sites(st.link, items)
    nfault = st.fault_count()
    # resynchronisation: a delivery located behind the position of an earlier fault
    resync = 0
    if st.link is not None and extents:
        p = 0
        first_fault = None
        for op, want, k, n in st.link.log:
            if k == "d":
                if op == "read" and 0 < n < want:
                    first_fault = p if first_fault is None else first_fault
                p += n
            elif k != "eof" and first_fault is None:
                first_fault = p
        if first_fault is not None and any(a >= first_fault for a in extents if a >= 0):
            resync = 1
    from .c02 import intra_frame_boundaries

    intra = intra_frame_boundaries(st, items)
    hostile = sum(1 for it in items if it[0] in ("bad", "undec"))
    taken = st.link.taken if st.link else []
    explicit = {k: v for k, v in scn.items() if k != "sched"}
    explicit["decisions"] = taken
    counters = {"kind:" + kind: 1, "link_model:" + scn.get("sched", {}).get("model", "adversarial" if "sched" in scn else "script"): 1, "frames_delivered": delivered, "transport_calls": st.calls(), "runs_resync_after_fault": resync}
    if st.link:
        for k, v in st.link.fired.items():
            counters["fault:" + k.split(":")[0]] = counters.get("fault:" + k.split(":")[0], 0) + v
    nnone = sum(1 for e in events if e[0] in ("none", "stop"))
    nraise = sum(1 for e in events if e[0] == "raise")
    counters["resumed_after_empty"] = max(0, nnone - 1)
    counters["resumed_after_raise"] = nraise
    evd = [(e[0], bytes(e[1]) if e[0] == "frame" else (type(e[1]).__name__ if e[0] == "raise" else None)) for e in events]
    return {
        "digest": digest_of((st.link.log if st.link else None, evd, len(calls), viol and viol["class"])),
        "violation": viol,
        "explicit": explicit,
        "stats": {
            "nontrivial": delivered > 0 and (nfault > 0 or intra > 0 or hostile > 0),
            "scn_d64": d64((items, kind, scn["bufsize"], scn.get("rawbuf"), taken, sorted(o.items()), scn.get("driver"), scn.get("max_none"))),
            "counters": counters,
            "sets": {"fault_site_matrix": sites},
            "sim_seconds": float(getattr(decider, "now", 0.0)),
        },
    }


def simplify(scn):
    from .c02 import simplify as s2

    yield from s2(scn)
    if scn.get("max_none"):
        cand = dict(scn)
        cand["max_none"] = 0
        yield cand
    dec = scn.get("decisions") or []
    for i, d in enumerate(dec):
        if d[0] != "d":
            cand = dict(scn)
            cand["decisions"] = dec[:i] + [["d", 1 << 20]] + dec[i + 1 :]
            yield cand


def sample_view(scn, out):
    ex = out["explicit"]
    return {
        "stream_kind": ex["kind"],
        "bufsize": ex["bufsize"],
        "driver": [ex.get("driver"), ex.get("max_none")],
        "reader_options": ex["opts"],
        "items": [[it[0], len(it[1]) // 2, it[2]] for it in ex["items"][:25]],
        "transport_schedule": [d[1] if d[0] == "d" else ":".join(map(str, d)) for d in ex["decisions"][:40]],
        "violation": out["violation"] and out["violation"]["class"],
    }
