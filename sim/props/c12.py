"""C12 -- chunked transfer decoding is independent of segmentation.

World: chunk-encoding peer (optionally per-chunk gzip/zlib/deflate) -> link
that segments the encoded stream -> real SocketWrapper(encoding=...) -> client
issuing read(n).  Oracle: independent RFC 9112 decoder over the unsegmented
stream; handed-out bytes are always a prefix of it and equal it after drain.
"""

import itertools

from .. import rng as R
from .. import wire
from ..runner import HarnessError, d64, digest_of, violation
from ..transports import Link, RngDecider, ScriptDecider, SimBudgetExceeded, SimSocket

PROP = "C12"
RUNS = {"quick": 80000, "thorough": 3000000}
BLOCK = {"quick": 500, "thorough": 5000}
TRACE_SAMPLE = 60  # reach probe runs single-process under settrace: keep it cheap
SHRINK_LISTS = ["chunks", "items", "decisions", "reads"]
RULE = (
    "one run = one seeded chunked body (1..12 chunks, sizes biased to 1,9/10,15/16,255/256,4095/4096; hex case and "
    "leading zeros varied; content dense in CR/LF/hex digits/terminator look-alikes; encoding chunked alone or with "
    "gzip/zlib/deflate per chunk; with/without zero chunk) delivered over a seeded recv partition (segmentation "
    "style, bufsize, boundaries aimed at size line / after data / inside CRLF) to the real SocketWrapper, read with "
    "a seeded read-size sequence. distinct = distinct (body, encoding, bufsize, recv partition, read sizes) digests; "
    "non-trivial = at least one recv boundary fell strictly inside a chunk (size line, data, after data, or between "
    "CR and LF) and at least one byte was handed out. 1 run in 5 additionally injects a TimeoutError / OSError between "
    "two receives at an aimed boundary (the client reads again; the partial chunk must survive). 1 run in 10 is 'reader "
    "mode': a well-formed mixed wire cut into chunks at seeded offsets, read by RTCMReader(socket, encoding=...), "
    "delivered frames compared with the script."
)
ASSUMPTIONS = [
    "well-formed chunked bodies without chunk extensions or trailers (as the property defines them)",
    "the peer sends the whole body then closes; in 4 of 5 runs no faults at all; in 1 of 5 a timeout/OS error between two receives, which by C11 must not lose buffered (here: partially received chunk) data",
    "reference decoder sim.wire.chunk_decode_reference and stdlib zlib are trusted",
]

SIZES = (1, 1, 1, 2, 3, 9, 10, 15, 16, 17, 31, 32, 100, 255, 256, 257, 1000, 4095, 4096)
BUFSIZES = (1, 2, 3, 4, 5, 7, 8, 13, 16, 64, 100, 512, 4096, 8192)
ENCS = (1, 1, 1, 3, 5, 9)
ALPHABETS = (
    b"\r\n",
    b"\r\n0",
    b"0123456789abcdefABCDEF\r\n",
    b"\r\n0aA1 ;",
    bytes(range(256)),
    b"\r",
    b"\n",
    b"a",
)


def _body(rng, n):
    style = rng.randrange(6)
    if style == 0:
        # terminator / size-line look-alikes
        pieces = (b"0\r\n\r\n", b"\r\n", b"1\r\n", b"a\r\nX\r\n", b"\r", b"\n", b"ff\r\n", b"0\r\n")
        out = bytearray()
        while len(out) < n:
            out += pieces[rng.randrange(len(pieces))]
        return bytes(out[:n])
    alpha = ALPHABETS[rng.randrange(len(ALPHABETS))]
    return bytes(alpha[rng.randrange(len(alpha))] for _ in range(n))


def generate(master, index, tier):
    rng = R.rng_for(master, PROP, index)
    nch = rng.choice((1, 1, 2, 2, 3, 3, 4, 5, 8, 12))
    big_left = 2  # at most two big chunks per run (keeps runs short)
    chunks = []
    for _ in range(nch):
        n = rng.choice(SIZES) if rng.random() < 0.8 else rng.randrange(1, 3001)
        if n > 300:
            if big_left == 0:
                n = rng.randrange(1, 40)
            else:
                big_left -= 1
        chunks.append([_body(rng, n).hex(), rng.choice("lum"), rng.choice((0, 0, 0, 1, 2))])
    enc = rng.choice(ENCS)
    if enc != 1 and rng.random() < 0.15:
        # under compression a data chunk may legitimately decode to nothing (e.g. gzip of b"")
        chunks.insert(rng.randrange(len(chunks) + 1), ["", "l", 0])
    bufsize = rng.choice(BUFSIZES)
    if bufsize <= 2 and sum(len(c[0]) for c in chunks) > 4000:
        bufsize = rng.choice((5, 7, 64))
    scn = {
        "prop": PROP,
        "enc": enc,
        "level": rng.choice((1, 6, 9)),
        "bufsize": bufsize,
        "final": rng.random() < 0.7,
        "chunks": chunks,
        "reads": [rng.choice((1, 1, 2, 3, 5, 16, 100, 1000, 4096)) for _ in range(rng.randrange(1, 5))],
        "sched": {
            "seed": rng.getrandbits(48),
            "seg": rng.choice(("full", "byte", "small", "random", "random", "mixed")),
            "naims": rng.choice((0, 1, 2, 3, 6)),
            # 1 run in 5: a timeout / OS error is injected *between* two receives, right at an aimed
            # boundary (the client simply reads again): the partial chunk must survive it
            "faults": index % 5 == 2,
        },
    }
    if index % 10 == 9:
        # reader mode: the NTRIP path.  A well-formed mixed wire, cut into chunks at seeded
        # offsets (unrelated to frame boundaries), read by RTCMReader(socket, encoding=...)
        from .. import readerworld as W

        items = W.gen_wellformed_items(rng, rng.choice((1, 2, 4, 8)), p_filler=0.05)
        total = sum(len(it[1]) // 2 for it in items)
        ncut = rng.choice((0, 1, 2, 5, 12))
        scn["items"] = items
        scn["chunk_cuts"] = sorted({rng.randrange(1, total) for _ in range(ncut)}) if total > 1 else []
        scn["chunk_fmt"] = [rng.choice("lum"), rng.choice((0, 0, 1))]
        scn["opts"] = {"quitonerror": rng.choice((0, 1, 2)), "labelmsm": rng.choice((1, 2)), "parsed": rng.random() < 0.85}
        scn["chunks"] = []
    return scn


def _chunks_of(scn):
    if "items" not in scn:
        return scn["chunks"]
    from .. import readerworld as W

    data = W.wire_of(scn["items"])
    case, lz = scn.get("chunk_fmt", ["l", 0])
    out = []
    p = 0
    for c in [c for c in scn.get("chunk_cuts", []) if 0 < c < len(data)] + [len(data)]:
        if c > p:
            out.append([data[p:c].hex(), case, lz])
            p = c
    return out


def _encode(scn):
    scn = dict(scn, chunks=_chunks_of(scn))
    bodies = [bytes.fromhex(c[0]) for c in scn["chunks"]]
    comp = [wire.compress_chunk(b, scn["enc"], scn.get("level", 6)) for b in bodies]
    fmt = [(c[1], c[2]) for c in scn["chunks"]]
    encoded, spans = wire.chunk_encode(comp, fmt, scn.get("final", True))
    return bodies, encoded, spans


def _aims(rng, spans, n, final, faults=False):
    aims = []
    real = spans[:-1] if final and len(spans) > 1 else spans
    for _ in range(n):
        s0, d0, d1, ce = real[rng.randrange(len(real))]
        where = rng.randrange(6)
        if where == 0:
            o = d1  # right after the last data byte
        elif where == 1:
            o = d1 + 1  # between CR and LF of the chunk terminator
        elif where == 2:
            o = d0 - 1  # after the CR of the size line
        elif where == 3:
            o = s0 + 1  # inside / right after first size digit
        elif where == 4:
            o = ce  # exactly at the chunk end
        else:
            o = rng.randrange(d0, d1 + 1)
        aims.append([o, ["d", 0]])
        if faults:
            aims.append([o, rng.choice((["t"], ["t"], ["e", "ConnectionResetError"], ["e", "InterruptedError"], ["e", "OSError"], ["e", "OSError/noerrno"], ["e", "ConnectionResetError/noargs"]))])
    aims.sort(key=lambda a: a[0])
    return aims


def classify_boundaries(bounds, spans, total):
    cls = {}
    for o in bounds:
        if o <= 0 or o >= total:
            continue
        c = "other"
        for s0, d0, d1, ce in spans:
            if s0 < o < d0:
                c = "size_line"
            elif o == d0 and d1 > d0:
                c = "before_data"
            elif d0 < o < d1:
                c = "inside_data"
            elif o == d1 and d1 > d0:
                c = "after_data"
            elif d1 < o < ce:
                c = "inside_crlf"
            elif o == ce:
                c = "chunk_end"
            else:
                continue
            break
        cls[c] = cls.get(c, 0) + 1
    return cls


def execute(scn):
    from pyrtcm.socketwrapper import SocketWrapper

    bodies, encoded, spans = _encode(scn)
    enc = scn["enc"]
    expected = wire.chunk_decode_reference(encoded, enc)
    if expected != b"".join(bodies):
        raise HarnessError("reference decoder disagrees with generator")
    if "decisions" in scn:
        decider = ScriptDecider([tuple(d) for d in scn["decisions"]])
    else:
        sch = scn["sched"]
        srng = R.random.Random(sch["seed"])
        cfg = {"seg": sch["seg"], "aims": _aims(srng, spans, sch["naims"], scn.get("final", True), sch.get("faults", False))}
        decider = RngDecider(srng, cfg)
    budget = len(encoded) + 64
    link = Link(encoded, decider, budget)
    link.budget_per_fault = 4
    handed = bytearray()
    viol = None
    reads = scn["reads"] or [1]
    nreads = 0
    if "items" in scn:
        return _execute_reader(scn, encoded, spans, link)
    try:
        sw = SocketWrapper(SimSocket(link), encoding=enc, bufsize=scn["bufsize"])
        i = 0
        n = reads[0]
        draining = False
        maxreads = len(expected) + 64
        while True:
            if not draining:
                n = reads[i % len(reads)]
                i += 1
            nreads += 1
            if nreads > maxreads + 4 * sum(link.fired.values()):
                viol = violation(PROP, "no-progress", f"{nreads} client reads for {len(expected)} expected bytes")
                break
            f0 = link.fault_in_call
            data = sw.read(n)
            if len(data) > n:
                viol = violation(PROP, "more-than-requested", f"read({n}) returned {len(data)} bytes")
                break
            handed += data
            if expected[len(handed) - len(data) : len(handed)] != data:
                at = len(handed) - len(data)
                exp = expected[at : at + len(data)]
                j = 0
                while j < len(exp) and exp[j] == data[j]:
                    j += 1
                viol = violation(
                    PROP,
                    "bytes-differ",
                    f"after {at + j} good bytes read({n}) gave {bytes(data[j:j + 16])!r}, expected {expected[at + j:at + j + 16]!r}",
                )
                break
            if len(data) == 0:
                if not link.eof_seen:
                    if link.fault_in_call > f0:
                        continue  # an injected timeout / OS error: the client reads again
                    viol = violation(PROP, "empty-before-close", f"read({n}) returned nothing although the peer has not closed and no recv failed")
                    break
                draining = True
                if n == 1:
                    break
                n = max(1, n // 2)
        if viol is None and bytes(handed) != expected:
            viol = violation(
                PROP,
                "bytes-lost",
                f"{len(handed)} of {len(expected)} decoded bytes delivered after full drain",
            )
    except SimBudgetExceeded as e:
        viol = violation(PROP, "non-termination", str(e))
    except Exception as e:  # anything escaping the wrapper on well-formed input
        viol = violation(PROP, f"exception:{type(e).__name__}", f"{type(e).__name__}: {e}")

    bounds = []
    p = 0
    for op, want, kind, k in link.log:
        if kind == "d":
            p += k
            bounds.append(p)
    cls = classify_boundaries(bounds, spans, len(encoded))
    intra = sum(v for k, v in cls.items() if k not in ("chunk_end", "other"))
    explicit = {k: v for k, v in scn.items() if k != "sched"}
    explicit["decisions"] = link.taken
    counters = {"bclass:" + k: v for k, v in cls.items()}
    counters["enc:%d" % enc] = 1
    for k, v in link.fired.items():
        counters["fault:" + k.split(":")[0]] = counters.get("fault:" + k.split(":")[0], 0) + v
    counters["recv_calls"] = link.calls
    counters["client_reads"] = nreads
    counters["bytes_decoded"] = len(handed)
    return {
        "digest": digest_of((link.log, bytes(handed), viol and viol["class"])),
        "violation": viol,
        "explicit": explicit,
        "stats": {
            "nontrivial": intra > 0 and len(handed) > 0,
            "scn_d64": d64((scn["chunks"], enc, scn["bufsize"], bounds, link.taken if link.fired else None, reads, scn.get("final", True))),
            "counters": counters,
            "sim_seconds": 0.0,
        },
    }


def _execute_reader(scn, encoded, spans, link):
    """reader mode: RTCMReader over a chunk-encoded socket stream must return
    exactly the frames the well-formed wire carries"""
    from pyrtcm import RTCMReader

    from .. import readerworld as W

    items = scn["items"]
    o = scn["opts"]
    expected = W.must_deliver(items)
    viol = None
    events = []

    class _St:  # what drive() needs to know
        def pos(self):
            return link.pos

        def at_eof(self):
            return link.eof_seen or link.pos >= link.end

    try:
        rd = RTCMReader(SimSocket(link), validate=1, quitonerror=o["quitonerror"], labelmsm=o["labelmsm"], parsed=o["parsed"], bufsize=scn["bufsize"], encoding=scn["enc"])
        events = W.drive(rd, _St(), "iterate", 0)
    except SimBudgetExceeded as e:
        viol = violation(PROP, "non-termination", str(e))
    delivered = [bytes(e[1]) for e in events if e[0] == "frame" and wire.frame_identity(bytes(e[1])) is not None]
    lib = W.lib_exceptions()
    for e in events:
        if e[0] == "raise" and (not isinstance(e[1], lib) or o["quitonerror"] != 2):
            viol = viol or violation(PROP, f"reader-exception:{type(e[1]).__name__}", f"reader over chunked socket raised {type(e[1]).__name__}: {e[1]}")
    if viol is None and delivered != expected:
        i = 0
        while i < len(delivered) and i < len(expected) and delivered[i] == expected[i]:
            i += 1
        viol = violation(PROP, "reader-frames-differ", f"reader over the chunked socket stream returned {len(delivered)} frames, {len(expected)} in the decoded stream; first difference at {i}")
    bounds = []
    p = 0
    for op, want, kind, k in link.log:
        if kind == "d":
            p += k
            bounds.append(p)
    cls = classify_boundaries(bounds, spans, len(encoded))
    intra = sum(v for k, v in cls.items() if k not in ("chunk_end", "other"))
    explicit = {k: v for k, v in scn.items() if k != "sched"}
    explicit["decisions"] = link.taken
    counters = {"bclass:" + k: v for k, v in cls.items()}
    counters["reader_mode_runs"] = 1
    counters["reader_mode_frames"] = len(delivered)
    counters["enc:%d" % scn["enc"]] = 1
    evd = [(e[0], bytes(e[1]) if e[0] == "frame" else (type(e[1]).__name__ if e[0] == "raise" else None)) for e in events]
    return {
        "digest": digest_of((link.log, evd, viol and viol["class"])),
        "violation": viol,
        "explicit": explicit,
        "stats": {
            "nontrivial": intra > 0 and len(delivered) > 0,
            "scn_d64": d64((items, scn.get("chunk_cuts"), scn["enc"], scn["bufsize"], bounds, sorted(o.items()))),
            "counters": counters,
            "sim_seconds": 0.0,
        },
    }


def simplify(scn):
    """property specific shrinking candidates"""
    if "items" in scn:
        cuts = scn.get("chunk_cuts", [])
        for i in range(len(cuts)):
            cand = dict(scn)
            cand["chunk_cuts"] = cuts[:i] + cuts[i + 1 :]
            yield cand
        for key, val in (("enc", 1), ("bufsize", 4096)):
            if scn[key] != val:
                cand = dict(scn)
                cand[key] = val
                yield cand
        return
    # shorten chunk bodies
    for i, c in enumerate(scn["chunks"]):
        b = bytes.fromhex(c[0])
        if len(b) > 1:
            for nb in (b[: len(b) // 2], b[:1], b[1:]):
                if nb:
                    cand = dict(scn)
                    cand["chunks"] = scn["chunks"][:i] + [[nb.hex(), c[1], c[2]]] + scn["chunks"][i + 1 :]
                    yield cand
        if c[1] != "l" or c[2] != 0:
            cand = dict(scn)
            cand["chunks"] = scn["chunks"][:i] + [[c[0], "l", 0]] + scn["chunks"][i + 1 :]
            yield cand
        if b and any(x != 0x61 for x in b):
            cand = dict(scn)
            cand["chunks"] = scn["chunks"][:i] + [[(b"a" * len(b)).hex(), c[1], c[2]]] + scn["chunks"][i + 1 :]
            yield cand
    if scn["enc"] != 1:
        cand = dict(scn)
        cand["enc"] = 1
        yield cand
    if scn["bufsize"] != 4096:
        cand = dict(scn)
        cand["bufsize"] = 4096
        yield cand
    # merge adjacent deliveries
    dec = scn.get("decisions") or []
    for i in range(len(dec) - 1):
        if dec[i][0] == "d" and dec[i + 1][0] == "d":
            cand = dict(scn)
            cand["decisions"] = dec[:i] + [["d", dec[i][1] + dec[i + 1][1]]] + dec[i + 2 :]
            yield cand
    if scn["reads"] != [1]:
        cand = dict(scn)
        cand["reads"] = [1]
        yield cand


def sample_view(scn, out):
    ex = out["explicit"]
    return {
        "encoding": ex["enc"],
        "bufsize": ex["bufsize"],
        "final_zero_chunk": ex.get("final", True),
        "mode": "reader over chunked socket" if "items" in ex else "wrapper",
        "chunks": [[c[0][:40] + ("..." if len(c[0]) > 40 else ""), len(c[0]) // 2, c[1], c[2]] for c in _chunks_of(ex)[:6]],
        "recv_results": [d[1] if d[0] == "d" else d[0] for d in ex["decisions"][:40]],
        "read_sizes": ex["reads"],
        "violation": out["violation"] and out["violation"]["class"],
    }


# ---------------------------------------------------------------------------
# systematic schedules: the same simulator with an enumerator instead of the
# PRNG as schedule source (reported separately from the seeded search)
# ---------------------------------------------------------------------------

PINNED = [
    # (chunks, final)
    ([["61", "l", 0], ["6263", "l", 0]], True),  # 1\r\na\r\n2\r\nbc\r\n0\r\n\r\n  (18 bytes)
    ([["0d0a", "l", 0]], True),
    ([["300d0a0d0a", "l", 0]], False),
    ([["61" * 10, "l", 0]], True),  # size 'a'
    ([["61" * 16, "u", 1], ["0d", "l", 0]], True),  # size '010'
    ([["0a", "l", 0], ["0d", "l", 0], ["30", "l", 0]], False),
]


def _partition_decisions(total, cuts):
    dec = []
    p = 0
    for c in cuts:
        dec.append(["d", c - p])
        p = c
    dec.append(["d", total - p])
    return dec


def _sys_block(args):
    kind, base, lo, hi = args
    from ..runner import use_tree  # noqa: F401  (tree already imported in parent before fork)

    n = 0
    viols = []
    cls_tot = {}
    _, encoded, spans = _encode(base)
    total = len(encoded)
    if kind == "all":
        for mask in range(lo, hi):
            cuts = [i + 1 for i in range(total - 1) if (mask >> i) & 1]
            scn = dict(base)
            scn["decisions"] = _partition_decisions(total, cuts)
            out = execute(scn)
            n += 1
            if out["violation"] is not None and len(viols) < 3:
                v = dict(out["violation"])
                v["explicit"] = out["explicit"]
                viols.append(("sys", v))
            for k, c in out["stats"]["counters"].items():
                if k.startswith("bclass:"):
                    cls_tot[k] = cls_tot.get(k, 0) + c
    else:
        cutsets = list(itertools.chain(((a,) for a in range(1, total)), itertools.combinations(range(1, total), 2)))
        for cuts in cutsets[lo:hi]:
            scn = dict(base)
            scn["decisions"] = _partition_decisions(total, cuts)
            out = execute(scn)
            n += 1
            if out["violation"] is not None and len(viols) < 3:
                v = dict(out["violation"])
                v["explicit"] = out["explicit"]
                viols.append(("sys", v))
            for k, c in out["stats"]["counters"].items():
                if k.startswith("bclass:"):
                    cls_tot[k] = cls_tot.get(k, 0) + c
    return n, viols, cls_tot


def systematic(tier, master, workers):
    import multiprocessing
    from concurrent.futures import ProcessPoolExecutor

    tasks = []
    desc = []
    for enc in ((1,) if tier == "quick" else (1, 3, 5, 9)):
        for chunks, final in PINNED:
            base = {"prop": PROP, "enc": enc, "level": 6, "bufsize": 4096, "final": final, "chunks": chunks, "reads": [1] if enc == 1 else [3]}
            _, encoded, _ = _encode(base)
            total = len(encoded)
            limit = 13 if tier == "quick" else 19
            if enc == 1 and total <= limit:
                nparts = 1 << (total - 1)
                step = max(1, nparts // 32)
                for lo in range(0, nparts, step):
                    tasks.append(("all", base, lo, min(nparts, lo + step)))
                desc.append({"body_len": total, "enc": enc, "schedules": nparts, "kind": "all 2^(L-1) partitions"})
            else:
                ncuts = (total - 1) + (total - 1) * (total - 2) // 2
                if tier == "quick" and ncuts > 3000:
                    ncuts_eff = total - 1  # singles only
                else:
                    ncuts_eff = ncuts
                step = max(1, ncuts_eff // 8)
                for lo in range(0, ncuts_eff, step):
                    tasks.append(("cuts", base, lo, min(ncuts_eff, lo + step)))
                desc.append({"body_len": total, "enc": enc, "schedules": ncuts_eff, "kind": "every single cut and every pair of cuts" if ncuts_eff == ncuts else "every single cut"})
    ctx = multiprocessing.get_context("fork")
    n = 0
    viols = []
    cls = {}
    with ProcessPoolExecutor(max_workers=workers, mp_context=ctx) as pool:
        for k, v, c in pool.map(_sys_block, tasks):
            n += k
            viols.extend(v)
            for a, b in c.items():
                cls[a] = cls.get(a, 0) + b
    return {
        "coverage": {
            "systematic_schedules": n,
            "systematic_bodies": desc,
            "systematic_boundary_classes": cls,
            "systematic_exhaustive_for_listed_bodies": True,
        },
        "violations": viols,
    }
