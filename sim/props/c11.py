"""C11 -- socket reads are independent of how the network segments the data.

Level 1: bare SocketWrapper against a byte-queue reference model, under a
timed or adversarial link with timeouts / OS errors / close.
Level 2: RTCMReader over SimSocket == RTCMReader over BytesIO for the same
bytes (well-formed mixed input, optional damage behind the frame header).
"""

import io

from .. import readerworld as W
from .. import rng as R
from ..runner import d64, digest_of, violation
from ..transports import (
    ERROR_NAMES,
    Link,
    RngDecider,
    ScriptDecider,
    SimBudgetExceeded,
    SimSocket,
    TimedDecider,
    timed_arrivals,
)

PROP = "C11"
RUNS = {"quick": 160000, "thorough": 2500000}
BLOCK = {"quick": 1000, "thorough": 5000}
SHRINK_LISTS = ["ops", "decisions", "items"]
RULE = (
    "level 1 (4 of 5 runs): one seeded byte stream (dense in CR/LF) delivered to the real SocketWrapper over a link "
    "whose every recv() result is decided by the seed -- adversarial model (any partition, bufsize 1..8192, "
    "TimeoutError / OSError family / peer close at seeded or aimed offsets) or timed model (peer write times, latency, "
    "jitter, MSS, socket timeout, client think time on a virtual clock) -- while a seeded client issues read(n) / "
    "readline() / in_waiting(), then drains after faults stop; checked op by op against a byte-queue model. level 2 "
    "(1 of 5): RTCMReader over that socket vs RTCMReader over BytesIO of the same well-formed mixed wire. distinct = "
    "distinct (stream, bufsize, recv schedule, op list) digests; non-trivial = some op returned bytes AND (a fault "
    "fired or an op spanned >= 2 recv calls or a recv boundary fell inside a frame)."
)
ASSUMPTIONS = [
    "recv() never returns more than bufsize and never rewinds (legal sockets only)",
    "an op in which an injected fault fired may return short/empty or raise the injected error; everything else is checked",
    "level 2 uses inputs on which the reader never desynchronises (CRLF-terminated NMEA), see DESIGN 4",
]

BUFSIZES = (1, 2, 3, 4, 7, 8, 16, 63, 64, 65, 512, 4096, 8192)
FAULTS = [["t"], ["t"], ["t"]] + [["e", n] for n in ERROR_NAMES]


def _stream_bytes(rng, n):
    style = rng.randrange(5)
    if style == 0:
        alpha = b"\r\n"
    elif style == 1:
        alpha = b"\r\nab"
    elif style == 2:
        alpha = b"\r\n$G,*0123456789ABCDEF"
    elif style == 3:
        alpha = bytes(range(256))
    else:
        alpha = b"\r\r\r\n\n\nx"
    return bytes(alpha[rng.randrange(len(alpha))] for _ in range(n))


def generate(master, index, tier):
    rng = R.rng_for(master, PROP, index)
    level = 2 if index % 5 == 4 else 1
    bufsize = rng.choice(BUFSIZES)
    if level == 1:
        n = rng.choice((0, 1, 2, 5, 20, 60, 200, 600, 1500))
        long_lived = index % 400 == 41  # a long-lived connection: > 64 KiB through one wrapper
        if long_lived:
            n = rng.choice((66000, 70000, 140000))
            bufsize = rng.choice((512, 4096, 4096, 8192))
        data = _stream_bytes(rng, n)
        ops = []
        for _ in range(rng.choice((1, 2, 3, 5, 8, 15, 30)) if not long_lived else rng.choice((150, 400))):
            r = rng.random()
            if r < 0.7:
                k = rng.choice((0, 1, 1, 2, 3, 6, bufsize - 1, bufsize, bufsize + 1, rng.randrange(1, 300), n + 5, 100000))
                if long_lived:
                    k = rng.choice((37, 512, 1000, 1029, 4096, bufsize, rng.randrange(1, 3000)))
                ops.append(["read", max(0, k)])
            elif r < 0.9:
                ops.append(["readline"])
            else:
                ops.append(["inw"])
        scn = {"prop": PROP, "level": 1, "bufsize": bufsize, "stream": data.hex(), "ops": ops}
        if index % 7 == 3 and not long_lived and n > 0:
            # the same contract with a transfer encoding configured: "the peer's byte stream" is
            # then the decoded one.  `stream` becomes the chunk-encoded form of the data.
            from .. import wire as _w

            cuts = sorted({rng.randrange(1, n) for _ in range(rng.choice((0, 1, 3, 8)))}) if n > 1 else []
            bodies = [data[a:b] for a, b in zip([0] + cuts, cuts + [n]) if b > a]
            enc_stream, _ = _w.chunk_encode(bodies, None, rng.random() < 0.7)
            scn["enc"] = 1
            scn["stream"] = enc_stream.hex()
            n = len(enc_stream)
        model = rng.choice(("adv", "adv", "timed"))
        if model == "adv":
            nfaults = rng.choice((0, 0, 1, 2, 4))
            aims = []
            for _ in range(nfaults):
                o = rng.randrange(0, n + 1)
                f = rng.choice(FAULTS + [["c"]])
                aims.append([o, f])
                if rng.random() < 0.3:
                    aims.append([o, rng.choice(FAULTS)])  # two faults in a row
            aims.sort(key=lambda a: a[0])
            scn["sched"] = {
                "model": "adv",
                "seed": rng.getrandbits(48),
                "seg": rng.choice(("full", "byte", "small", "random", "mixed")),
                "p_fault": rng.choice((0.0, 0.0, 0.02, 0.1, 0.3)),
                "aims": aims,
            }
        else:
            scn["sched"] = _timed_cfg(rng)
            # peer writes in pieces
            cuts = sorted(rng.randrange(0, n + 1) for _ in range(rng.choice((0, 1, 3, 8))))
            lens = []
            p = 0
            for c in cuts + [n]:
                if c > p:
                    lens.append(c - p)
                    p = c
            scn["sched"]["writes"] = lens
        return scn
    # level 2
    items = W.gen_wellformed_items(rng, rng.choice((1, 2, 4, 8, 15)), p_filler=0.05)
    if rng.random() < 0.4:
        for it in items:
            if it[0] == "frame" and rng.random() < 0.3:
                dmg, tag = W.damage_detectable(rng, bytes.fromhex(it[1]))
                it[0], it[1], it[2] = "bad", dmg.hex(), tag
    scn = {
        "prop": PROP,
        "level": 2,
        "bufsize": bufsize,
        "items": items,
        "opts": {
            "quitonerror": rng.choice((0, 1, 2)),
            "labelmsm": rng.choice((1, 2)),
            "parsed": rng.random() < 0.85,
            "validate": 1,
        },
        "sched": {"model": "adv", "seed": rng.getrandbits(48), "seg": rng.choice(("byte", "small", "random", "mixed", "full")), "p_fault": 0.0, "aims": []},
    }
    if rng.random() < 0.25:
        # faults exactly at item boundaries (nothing in flight), application polls again:
        # the reader over the socket must still return what the reader over the file returns
        scn["sched"]["aims"], scn["poll"] = W.gen_boundary_faults(rng, items, FAULTS)
    elif rng.random() < 0.3:
        scn["sched"] = _timed_cfg(rng)
        scn["sched"]["timeout"] = None  # fault-free differential: blocking socket
        scn["sched"]["writes"] = [len(it[1]) // 2 for it in items]
    return scn


def _timed_cfg(rng):
    return {
        "model": "timed",
        "seed": rng.getrandbits(48),
        "gap": rng.choice((0.0, 0.001, 0.05, 1.0, 10.0)),
        "mss": rng.choice((1, 8, 64, 536, 1460, 65536)),
        "latency": rng.choice((0.0001, 0.02, 0.3)),
        "jitter": rng.choice((0.0, 0.01, 0.5)),
        "linger": rng.choice((0.0, 0.5, 30.0)),
        "timeout": rng.choice((None, 0.01, 0.5, 3.0, 60.0)),
        "think": rng.choice((0.0, 0.00001, 0.001, 0.1)),
    }


def _decider(scn, total):
    if "decisions" in scn:
        return ScriptDecider([tuple(d) for d in scn["decisions"]])
    sch = scn["sched"]
    srng = R.random.Random(sch["seed"])
    if sch["model"] == "timed":
        arr, close_at = timed_arrivals(srng, sch["writes"], sch)
        return TimedDecider(arr, close_at, sch["timeout"], sch["think"])
    return RngDecider(srng, {"seg": sch["seg"], "p_fault": sch["p_fault"], "faults": FAULTS, "aims": sch["aims"]})


def _stop_faults(decider):
    if isinstance(decider, RngDecider):
        decider.p_fault = 0.0
        decider.aims = [a for a in decider.aims if a[1][0] == "d"]
        decider.ai = 0
    elif isinstance(decider, TimedDecider):
        decider.timeout = None


def execute(scn):
    if scn["level"] == 1:
        return _execute_l1(scn)
    return _execute_l2(scn)


def _execute_l1(scn):
    from pyrtcm.socketwrapper import SocketWrapper

    data = bytes.fromhex(scn["stream"])
    decider = _decider(scn, len(data))
    ops = scn["ops"]
    budget = 4 * len(data) + 8 * len(ops) + 400
    link = Link(data, decider, budget)
    handed = bytearray()
    viol = None
    results = []
    multi_recv_ops = 0
    injected = tuple(sorted({"TimeoutError"} | {n.partition("/")[0] for n in ERROR_NAMES}))

    enc = scn.get("enc", 0)
    memo = {"pos": -1, "dec": b""}

    def model():
        """the byte queue: what the peer has sent so far, as the application should see it"""
        if not enc:
            return data[: link.pos]
        if memo["pos"] != link.pos:
            from .. import wire as _w

            try:
                memo["dec"] = _w.chunk_decode_reference(data[: link.pos], enc)
            except ValueError:
                memo["dec"] = memo["dec"]  # cut inside a chunk terminator: nothing new is complete
            memo["pos"] = link.pos
        return memo["dec"]

    def check_prefix(res, what):
        nonlocal viol
        handed.extend(res)
        mdl = model()
        recvd = len(mdl)
        if len(handed) > recvd or mdl[len(handed) - len(res) : len(handed)] != bytes(res):
            viol = violation(
                PROP,
                "not-prefix",
                f"{what} returned {bytes(res[:24])!r}; handed-out bytes are no longer a prefix of the {recvd} bytes received "
                f"(handed {len(handed)})",
            )
            return False
        return True

    def do(op):
        """perform one op; returns False when a violation was recorded"""
        nonlocal viol, multi_recv_ops
        f0 = link.fault_in_call
        c0 = link.calls
        closed_before = link.eof_seen
        kind = op[0]
        try:
            if kind == "read":
                res = sw.read(op[1])
            elif kind == "readline":
                res = sw.readline()
            else:
                res = sw.in_waiting()
        except SimBudgetExceeded:
            raise
        except Exception as e:  # pylint: disable=broad-except
            if link.fault_in_call > f0 and type(e).__name__ in injected:
                results.append((kind, "raised", type(e).__name__))
                return True
            viol = violation(PROP, f"exception:{type(e).__name__}", f"{op} raised {type(e).__name__}: {e}")
            return False
        # "returns fewer only when the peer has closed or a timeout occurs": a fault in this very
        # call, or a close that the wrapper was already told about (recv returned b"" in an earlier
        # call -- a wrapper that remembers it need not ask the socket again)
        faulted = link.fault_in_call > f0 or closed_before
        if link.calls - c0 >= 2:
            multi_recv_ops += 1
        if kind == "inw":
            results.append((kind, res))
            if not isinstance(res, int) or res < 0 or res > len(model()) - len(handed):
                viol = violation(PROP, "in-waiting", f"in_waiting()={res!r} with {len(model()) - len(handed)} bytes received and not yet handed out")
                return False
            return True
        if not isinstance(res, (bytes, bytearray)):
            viol = violation(PROP, "result-type", f"{op} returned {type(res).__name__}")
            return False
        results.append((kind, bytes(res)))
        if kind == "read":
            n = op[1]
            if len(res) > n:
                viol = violation(PROP, "more-than-requested", f"read({n}) returned {len(res)} bytes")
                return False
            if not check_prefix(res, f"read({n})"):
                return False
            if len(res) < n and not faulted:
                viol = violation(
                    PROP,
                    "short-without-fault",
                    f"read({n}) returned {len(res)} bytes although no recv in this call timed out, failed or reported close",
                )
                return False
            return True
        # readline
        if not check_prefix(res, "readline()"):
            return False
        if not faulted:
            if not res.endswith(b"\r\n") or res.find(b"\r\n") != len(res) - 2:
                viol = violation(PROP, "readline-shape", f"readline() returned {bytes(res[-24:])!r} (len {len(res)}) without fault/close in this call")
                return False
        else:
            j = res.find(b"\r\n")
            if j >= 0 and j != len(res) - 2:
                viol = violation(PROP, "readline-shape", f"readline() ran past a CRLF: {bytes(res[:40])!r}")
                return False
        return True

    try:
        try:
            sw = SocketWrapper(SimSocket(link), bufsize=scn["bufsize"], **({"encoding": enc} if enc else {}))
        except SimBudgetExceeded:
            raise
        except Exception as e:  # pylint: disable=broad-except
            viol = violation(PROP, f"exception:{type(e).__name__}", f"constructor raised {type(e).__name__}: {e}")
            sw = None
        if sw is not None:
            ok = True
            for op in ops:
                if not do(op):
                    ok = False
                    break
            if ok:
                # faults stop; drain
                _stop_faults(decider)
                n = 64 if len(data) < 20000 else 4096
                guard = 0
                while viol is None:
                    guard += 1
                    if guard > len(data) + 200:
                        viol = violation(PROP, "no-progress", "drain does not finish")
                        break
                    f0 = link.fault_in_call
                    before = len(handed)
                    if not do(["read", n]):
                        break
                    if len(handed) == before:
                        # nothing came: either a (scripted) fault, or EOF with < n buffered
                        if link.pos >= link.end and link.eof_seen:
                            if n == 1:
                                break
                            n = max(1, n // 2)
                if viol is None and bytes(handed) != model():
                    viol = violation(
                        PROP,
                        "bytes-lost",
                        f"after faults stopped and full drain {len(handed)} bytes handed out of {len(model())} received",
                    )
    except SimBudgetExceeded as e:
        viol = violation(PROP, "non-termination", str(e))

    fired = dict(link.fired)
    explicit = {k: v for k, v in scn.items() if k != "sched"}
    explicit["decisions"] = link.taken
    counters = {"fault:" + k: v for k, v in fired.items()}
    counters["l1_runs"] = 1
    if enc:
        counters["l1_runs_chunked"] = 1
    counters["l1_ops"] = len(results)
    counters["l1_multi_recv_ops"] = multi_recv_ops
    counters["recv_calls"] = link.calls
    counters["model:" + (scn.get("sched", {}).get("model", "script"))] = 1
    if any(k == "recv_timeout" for k in fired) and len(handed) > 0:
        counters["timeout_with_data_flowing"] = 1
    return {
        "digest": digest_of((link.log, results, viol and viol["class"])),
        "violation": viol,
        "explicit": explicit,
        "stats": {
            "nontrivial": len(handed) > 0 and (bool(fired) or multi_recv_ops > 0),
            "scn_d64": d64((scn["stream"], scn["bufsize"], link.taken, ops)),
            "counters": counters,
            "sim_seconds": getattr(decider, "now", 0.0),
        },
    }


def _execute_l2(scn):
    from pyrtcm import RTCMReader

    items = scn["items"]
    data = W.wire_of(items)
    o = scn["opts"]
    budget = 6 * len(data) + 400
    decider = _decider(scn, len(data))
    viol = None
    sock_events = file_events = None
    st = None
    try:
        st = W.Stream("socket", data, decider, budget)
        errs = []
        rd = RTCMReader(st.obj, validate=o["validate"], quitonerror=o["quitonerror"], labelmsm=o["labelmsm"], parsed=o["parsed"], bufsize=scn["bufsize"], errorhandler=errs.append)
        sock_events = W.drive(rd, st, "iterate", scn.get("poll", 0))
        st2 = W.Stream("bytesio", data, None, budget)
        errs2 = []
        rd2 = RTCMReader(st2.obj, validate=o["validate"], quitonerror=o["quitonerror"], labelmsm=o["labelmsm"], parsed=o["parsed"], errorhandler=errs2.append)
        file_events = W.drive(rd2, st2, "iterate", 0)
    except SimBudgetExceeded as e:
        viol = violation(PROP, "non-termination", str(e))

    def canon(evs):
        out = []
        for e in evs:
            if e[0] == "frame":
                out.append(("frame", bytes(e[1]), W.canon_msg(e[2])))
            elif e[0] == "raise":
                out.append(("raise", type(e[1]).__name__))
            elif not scn.get("poll"):
                out.append((e[0],))
        return out

    a = canon(sock_events) if sock_events is not None else []
    b = canon(file_events) if file_events is not None else []
    if viol is None and a != b:
        i = 0
        while i < len(a) and i < len(b) and a[i] == b[i]:
            i += 1
        sa = a[i] if i < len(a) else None
        sb = b[i] if i < len(b) else None

        def brief(x):
            if x is None:
                return "nothing"
            if x[0] == "frame":
                return f"frame len={len(x[1])} id={x[2][0] if x[2] else None}"
            return repr(x)

        viol = violation(PROP, "socket-vs-file", f"event {i}: socket gave {brief(sa)}, file gave {brief(sb)} ({len(a)} vs {len(b)} events)")
    link = st.link if st is not None else None
    taken = link.taken if link else []
    # did a recv boundary fall inside a frame?
    intra = 0
    if link:
        bounds = set()
        p = 0
        for op, want, kind, k in link.log:
            if kind == "d":
                p += k
                bounds.add(p)
        for (s, e), it in zip(W.offsets_of(items), items):
            if it[0] in ("frame", "bad") and any(s < x < e for x in bounds):
                intra += 1
    explicit = {k: v for k, v in scn.items() if k != "sched"}
    explicit["decisions"] = taken
    nframes = sum(1 for e in a if e[0] == "frame")
    counters = {"l2_runs": 1, "l2_frames": nframes, "l2_intra_frame_boundaries": intra}
    return {
        "digest": digest_of((link.log if link else None, a, viol and viol["class"])),
        "violation": viol,
        "explicit": explicit,
        "stats": {
            "nontrivial": nframes > 0 and intra > 0,
            "scn_d64": d64((scn["items"], scn["bufsize"], taken, sorted(o.items()))),
            "counters": counters,
            "sim_seconds": getattr(decider, "now", 0.0),
        },
    }


def simplify(scn):
    if scn["level"] == 1:
        data = bytes.fromhex(scn["stream"])
        if len(data) > 1:
            for nd in (data[: len(data) // 2], data[len(data) // 2 :], data[:-1], data[1:]):
                cand = dict(scn)
                cand["stream"] = nd.hex()
                yield cand
        if any(b not in (0x61, 0x0D, 0x0A) for b in data):
            cand = dict(scn)
            cand["stream"] = bytes(b if b in (0x0D, 0x0A) else 0x61 for b in data).hex()
            yield cand
        for i, op in enumerate(scn["ops"]):
            if op[0] == "read" and op[1] > 1:
                for k in (1, op[1] // 2, op[1] - 1):
                    cand = dict(scn)
                    cand["ops"] = scn["ops"][:i] + [["read", k]] + scn["ops"][i + 1 :]
                    yield cand
    dec = scn.get("decisions") or []
    for i, d in enumerate(dec):
        if d[0] != "d":
            cand = dict(scn)
            cand["decisions"] = dec[:i] + [["d", 1 << 20]] + dec[i + 1 :]
            yield cand
    for i in range(len(dec) - 1):
        if dec[i][0] == "d" and dec[i + 1][0] == "d":
            cand = dict(scn)
            cand["decisions"] = dec[:i] + [["d", dec[i][1] + dec[i + 1][1]]] + dec[i + 2 :]
            yield cand
    if scn["bufsize"] != 4096:
        cand = dict(scn)
        cand["bufsize"] = 4096
        yield cand


def sample_view(scn, out):
    ex = out["explicit"]
    v = {
        "level": ex["level"],
        "bufsize": ex["bufsize"],
        "recv_schedule": [d[1] if d[0] == "d" else ":".join(map(str, d)) for d in ex["decisions"][:40]],
        "violation": out["violation"] and out["violation"]["class"],
    }
    if ex["level"] == 1:
        v["stream"] = ex["stream"][:80]
        v["stream_len"] = len(ex["stream"]) // 2
        v["ops"] = ex["ops"][:20]
        v["link_model"] = scn.get("sched", {}).get("model", "script")
    else:
        v["items"] = [[it[0], len(it[1]) // 2, it[2]] for it in ex["items"][:20]]
        v["reader_options"] = ex["opts"]
    return v
