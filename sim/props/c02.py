"""C02 -- no valid frame is lost, duplicated or reordered on well-formed mixed
input.  Fault-free configuration of the simulator: the only thing the seed
varies besides the script is *how the bytes arrive* (stream kind, recv /
readinto segmentation, buffer sizes) and the reader options."""

from .. import readerworld as W
from .. import rng as R
from .. import wire
from ..runner import d64, digest_of, violation
from ..transports import RngDecider, ScriptDecider, SimBudgetExceeded

PROP = "C02"
RUNS = {"quick": 48000, "thorough": 1200000}
BLOCK = {"quick": 200, "thorough": 2000}
SHRINK_LISTS = ["items", "decisions"]
RULE = (
    "one run = a seeded script of well-formed items (valid frames: recorded real / unassigned-number with payload "
    "2..1023 incl. 255-257,511-513,1023 / padded synthetic of every defined identity; zero-length, 1-byte and 2-byte-4076 "
    "fillers; complete NMEA sentences; complete UBX frames dense in sync bytes, some embedding valid frames; inert noise) "
    "delivered fault-free over BytesIO, BufferedReader over a chunky raw stream, a (never timing out) serial port double, or a socket with seeded recv "
    "segmentation and bufsize from 1, iterated with seeded reader options. distinct = distinct (items, stream kind, "
    "bufsize, arrival schedule, options) digests; non-trivial = >= 1 frame delivered AND >= 1 foreign item or filler "
    "in the script or >= 1 arrival boundary strictly inside a frame."
)
ASSUMPTIONS = [
    "valid frame of an implemented type = CRC-valid frame whose payload the pinned (clean-tree) definitions decode; see DESIGN 2.4",
    "NMEA sentences are CRLF terminated with a pinned talker list; noise excludes 0xD3/0xB5/0x24",
    "in raise mode a library exception may be raised for a filler frame only",
]


def generate(master, index, tier):
    rng = R.rng_for(master, PROP, index)
    n = rng.choice((1, 2, 3, 5, 8, 12, 20))
    mixes = ((0.4, 0.35, 0.25), (0.1, 0.8, 0.1), (0.8, 0.1, 0.1), (0.1, 0.1, 0.8))
    items = W.gen_wellformed_items(rng, n, p_filler=rng.choice((0.0, 0.08, 0.25)), mix=rng.choice(mixes))
    if index % 100 == 7:
        # deep filler history: > 1000 consecutive zero-length frames, then a frame
        items = W.gen_long_error_run(rng, rng.choice((300, 1100, 1600)), style=2) + [W.gen_frame(rng)]
    if index % 100 == 57:
        # long-lived connection: hundreds to thousands of valid frames through one reader
        items = W.gen_long_valid_run(rng, rng.choice((150, 300, 700, 1500, 3000)))
    kind = rng.choice(("bytesio", "buffered", "socket", "socket", "serial"))
    return {
        "prop": PROP,
        "kind": kind,
        "bufsize": rng.choice((1, 2, 3, 5, 7, 64, 512, 1029, 4096)),
        "rawbuf": rng.choice((1, 2, 8, 64, 8192)),
        "items": items,
        "driver": rng.choice(("iterate", "iterate", "read")),
        # 1 run in 10: the application hands the connection from one reader object to a new one
        "handover": rng.choice((0, 1, 2, 5)) if index % 10 == 4 else None,
        "opts": {"quitonerror": rng.choice((0, 1, 1, 2)), "parsed": rng.random() < 0.8, "labelmsm": rng.choice((1, 2)), "handler": rng.choice((False, False) + W.HANDLER_KINDS)},
        "sched": {"seed": rng.getrandbits(48), "seg": rng.choice(("full", "byte", "small", "random", "mixed"))},
    }


def run_reader(scn, data, validate=1, kind=None, opts=None):
    """shared by C02/C05/C17: build the stream and the reader, drive it.
    Returns (events, stream, handler_calls, budget_violation or None)"""
    from pyrtcm import RTCMReader

    o = opts or scn["opts"]
    kind = kind or scn["kind"]
    if "decisions" in scn:
        decider = ScriptDecider([tuple(d) for d in scn["decisions"]])
    else:
        sch = scn["sched"]
        # a serial port that delivers fewer bytes than asked is a fault (timeout), not segmentation
        decider = RngDecider(R.random.Random(sch["seed"]), {"seg": "full" if kind == "serial" else sch["seg"], "aims": sch.get("aims", ()) if kind == "socket" else ()})
    budget = 8 * len(data) + 600
    st = W.Stream(kind, data, decider, budget, rawbuf=scn.get("rawbuf", 64))
    kwf, calls = W.make_handler(o.get("handler"))
    try:
        def make(ds):
            return RTCMReader(ds, validate=validate, quitonerror=o["quitonerror"], labelmsm=o.get("labelmsm", 1), parsed=o.get("parsed", True), bufsize=scn.get("bufsize", 4096), **kwf())

        ho = (scn["handover"], make) if scn.get("handover") is not None else None
        events = W.drive(lambda: make(st.obj), st, scn.get("driver", "iterate"), scn.get("poll", 0) if kind == "socket" else 0, handover=ho)
    except SimBudgetExceeded as e:
        return None, st, calls, str(e)
    return events, st, calls, None


def intra_frame_boundaries(st, items):
    if st.link is None:
        return 0
    bounds = set()
    p = 0
    for op, want, k, n in st.link.log:
        if k == "d":
            p += n
            bounds.add(p)
    import bisect

    bl = sorted(bounds)
    c = 0
    for (s, e), it in zip(W.offsets_of(items), items):
        if it[0] in ("frame", "filler", "bad", "undec"):
            i = bisect.bisect_right(bl, s)
            if i < len(bl) and bl[i] < e:
                c += 1
    return c


def is_filler_raw(raw):
    return wire.frame_identity(raw) is None


def _gap(items, i):
    """kinds of the script items lying between the i-1-th and the i-th
    expected frame (where a reader that loses frame i went wrong); part of the
    violation signature, so that a known finding is identified by the input
    shape that fails and not by the class alone"""
    k = -1
    gap = []
    for it in items:
        if it[0] == "frame":
            k += 1
            if k == i:
                break
            gap = []
        else:
            gap.append(it[0] + (":" + it[2] if it[0] == "filler" else ""))
    return "+".join(sorted(set(gap))) or "nothing"


def execute(scn):
    items = scn["items"]
    data = W.wire_of(items)
    expected = W.must_deliver(items)
    nfill = sum(1 for it in items if it[0] == "filler")
    events, st, calls, budget_err = run_reader(scn, data)
    viol = None
    delivered = []
    if budget_err:
        viol = violation(PROP, "non-termination", budget_err)
        events = []
    lib = W.lib_exceptions()
    q = scn["opts"]["quitonerror"]
    nraise = 0
    for ev in events:
        if ev[0] == "frame":
            raw = bytes(ev[1])
            if scn["opts"].get("parsed", True):
                if ev[2] is None:
                    viol = viol or violation(PROP, "no-parsed-object", f"frame of {len(raw)} bytes delivered without parsed message")
            elif ev[2] is not None:
                viol = viol or violation(PROP, "unexpected-parsed-object", "parsed=False but a message object was returned")
            if not is_filler_raw(raw):
                delivered.append(raw)
        elif ev[0] == "raise":
            nraise += 1
            e = ev[1]
            if not isinstance(e, lib):
                viol = viol or violation(PROP, f"foreign-exception:{type(e).__name__}", f"iteration over well-formed input raised {type(e).__name__}: {e}")
            elif q != 2:
                viol = viol or violation(PROP, "raise-in-quiet-mode", f"quitonerror={q} but {type(e).__name__} left the iterator: {e}")
    if viol is None and q == 2 and nraise > nfill:
        viol = violation(PROP, "raise-on-valid-item", f"{nraise} exceptions raised but only {nfill} filler frames in the script")
    if viol is None and delivered != expected:
        i = 0
        while i < len(delivered) and i < len(expected) and delivered[i] == expected[i]:
            i += 1
        if i == len(delivered) and not st.at_eof():
            # which item did the reader stop behind?
            viol = violation(
                PROP,
                "early-stop",
                f"iteration ended after {i} of {len(expected)} frames with {len(data) - len(st.handed())} bytes of the stream unread "
                f"(stopped at offset {len(st.handed())}); items between the last delivered and the first missing frame: {_gap(items, i)}",
                signature=f"C02:early-stop@gap:{_gap(items, i)}",
            )
        elif i == len(delivered):
            viol = violation(
                PROP,
                "lost-frame",
                f"frame {i} of {len(expected)} (len {len(expected[i])}, id {wire.frame_identity(expected[i])}) never delivered; items between the last delivered and the first missing frame: {_gap(items, i)}",
                signature=f"C02:lost-frame@gap:{_gap(items, i)}",
            )
        elif i == len(expected):
            viol = violation(PROP, "extra-frame", f"delivered an extra frame (len {len(delivered[i])}) after all {len(expected)} expected")
        else:
            d = delivered[i]
            where = "a later expected frame (earlier one lost)" if d in expected[i + 1 :] else ("a duplicate" if d in expected[:i] else "not an emitted frame")
            viol = violation(PROP, "frames-differ", f"position {i}: delivered len {len(d)} id {wire.frame_identity(d)} which is {where}; expected len {len(expected[i])} id {wire.frame_identity(expected[i])}")
    if viol is None and events and events[-1][0] not in ("stop", "none"):
        viol = violation(PROP, "no-clean-stop", f"iteration did not end with StopIteration/(None, None): last event {events[-1][0]}")
    intra = intra_frame_boundaries(st, items)
    foreign = sum(1 for it in items if it[0] != "frame")
    taken = st.link.taken if st.link else []
    explicit = {k: v for k, v in scn.items() if k != "sched"}
    explicit["decisions"] = taken
    counters = {"kind:" + scn["kind"]: 1, "reader_handover_runs": 1 if scn.get("handover") is not None else 0, "frames_delivered": len(delivered), "intra_frame_boundaries": intra, "transport_calls": st.calls()}
    for it in items:
        counters["item:" + it[0]] = counters.get("item:" + it[0], 0) + 1
        if it[0] == "frame":
            ln = len(it[1]) // 2 - 6
            if ln >= 1023:
                counters["frame_len_1023"] = counters.get("frame_len_1023", 0) + 1
            elif ln >= 256:
                counters["frame_len_256_1022"] = counters.get("frame_len_256_1022", 0) + 1
    idents = {wire.frame_identity(f) for f in delivered}
    evd = [(e[0], bytes(e[1]) if e[0] == "frame" else (type(e[1]).__name__ if e[0] == "raise" else None)) for e in events]
    return {
        "digest": digest_of((st.link.log if st.link else None, evd, len(calls), viol and viol["class"])),
        "violation": viol,
        "explicit": explicit,
        "stats": {
            "nontrivial": len(delivered) > 0 and (foreign > 0 or intra > 0),
            "scn_d64": d64((items, scn["kind"], scn["bufsize"], scn.get("rawbuf"), taken, sorted(scn["opts"].items(), key=str), scn.get("driver"), scn.get("handover"))),
            "counters": counters,
            "sets": {"identities_delivered": idents},
            "sim_seconds": 0.0,
        },
    }


def simplify(scn):
    items = scn["items"]
    for i, it in enumerate(items):
        raw = bytes.fromhex(it[1])
        if it[0] == "frame" and len(raw) > 8 and not it[2].startswith("min"):
            # replace by a minimal unknown-number frame
            cand = dict(scn)
            cand["items"] = items[:i] + [["frame", wire.rtcm_frame(wire.rtcm_payload(999, 0, 2)).hex(), "min"]] + items[i + 1 :]
            yield cand
        if it[0] == "ubx" and len(raw) > 8:
            cand = dict(scn)
            cand["items"] = items[:i] + [["ubx", wire.ubx_frame(1, 2, b"").hex(), "min"]] + items[i + 1 :]
            yield cand
    for key, val in (("kind", "bytesio"), ("bufsize", 4096), ("driver", "iterate"), ("handover", None)):
        if scn.get(key) != val:
            cand = dict(scn)
            cand[key] = val
            yield cand
    o = scn["opts"]
    for key, val in (("quitonerror", 1), ("parsed", True), ("labelmsm", 1), ("handler", False)):
        if o.get(key) != val:
            cand = dict(scn)
            cand["opts"] = dict(o, **{key: val})
            yield cand
    dec = scn.get("decisions") or []
    if dec:
        cand = dict(scn)
        cand["decisions"] = []
        yield cand


def sample_view(scn, out):
    ex = out["explicit"]
    return {
        "stream_kind": ex["kind"],
        "bufsize": ex["bufsize"],
        "driver": ex.get("driver"),
        "reader_options": ex["opts"],
        "items": [[it[0], len(it[1]) // 2, it[2]] for it in ex["items"][:25]],
        "arrival_schedule": [d[1] if d[0] == "d" else d[0] for d in ex["decisions"][:40]],
        "violation": out["violation"] and out["violation"]["class"],
    }
