"""C04 -- parsing is total: only the library's own errors, and it terminates.

Simulated part: hostile peer over faulty transports in every error mode;
what may leave read()/__next__, and bounded liveness in transport calls.
Pure part (labelled direct_calls, not counted as simulated runs): the
constructor and the static parser called directly on every item of each
scenario and on all short buffers over a small alphabet."""

import itertools

from .. import corpus
from .. import readerworld as W
from .. import rng as R
from .. import wire
from ..runner import d64, digest_of, violation
from ..transports import SimBudgetExceeded

PROP = "C04"
RUNS = {"quick": 32000, "thorough": 1200000}
BLOCK = {"quick": 200, "thorough": 1000}
SHRINK_LISTS = ["items", "decisions"]
RULE = (
    "one run = a seeded hostile script (CRC-valid frames around arbitrary payloads of every length 0..1023 and any of "
    "the 4096 message numbers, truncations of valid payloads at every byte, bodies forced to all-ones, bodies spliced "
    "between types, bit noise re-framed with a correct CRC; wrong-CRC frames (reach the decoder when validate=0); "
    "damaged/truncated frames, cut NMEA/UBX, sync-dense junk) over BytesIO / BufferedReader / serial double (short and "
    "empty reads, close) / socket double (segmentation, TimeoutError, OSError family, close; sometimes with a transfer "
    "encoding configured), read with every quitonerror x validate x parsed x labelmsm, with/without error handler, by "
    "iterate / poll / resume-after-raise drivers. distinct = distinct (items, stream kind, bufsize, transport schedule, "
    "options, driver) digests; non-trivial = >= 1 handled or raised library error or >= 1 fault fired, AND >= 1 CRC-valid "
    "frame reached the decoder."
)
ASSUMPTIONS = [
    "the user error handler does not raise; transport doubles never raise from read()/readline() themselves (socket errors are raised into SocketWrapper)",
    "liveness bound: the run ends within 3*len(wire) + 10*faults + 10*polls + 100 transport calls",
    "direct_calls (constructor/static parser on non-stream inputs) are plain enumeration, reported separately",
]

SHORT_ALPHABET = (0x00, 0xD3, 0xFF, 0x3E, 0xFE, 0xC1)


def generate(master, index, tier):
    rng = R.rng_for(master, PROP, index)
    n = rng.choice((1, 2, 3, 5, 8, 12, 20))
    items = []
    p_copy = rng.choice((0.0, 0.0, 0.2))
    for _ in range(n):
        r = rng.random()
        prev = [it for it in items if it[0] == "frame"]
        if prev and rng.random() < p_copy:
            dmg, tag = W.damaged_copy(rng, bytes.fromhex(rng.choice(prev)[1]))
            items.append(["bad", dmg.hex(), tag])
        elif r < 0.45:
            items.append(W.gen_undecodable(rng))
        elif r < 0.6:
            items.append(W.gen_bad(rng))
        elif r < 0.75:
            items.append(W.gen_frame(rng))
        elif r < 0.82:
            items.append(W.gen_filler(rng))
        elif r < 0.9:
            items.append(W.gen_nmea(rng) if rng.random() < 0.5 else W.gen_ubx(rng))
        else:
            items.append(["bad", W.sync_dense(rng, rng.choice((1, 3, 10, 40))).hex(), "junk"])
    long_run = index % 100 == 7
    if long_run:
        # deep error history: > 1000 consecutive rejected items, sometimes closed by a valid frame
        items = W.gen_long_error_run(rng, rng.choice((300, 1100, 1600, 2500)))
        if rng.random() < 0.5:
            items.append(W.gen_frame(rng))
    kind = rng.choice(("bytesio", "buffered", "serial", "serial", "socket", "socket"))
    sched = W.gen_fault_sched(rng, kind, items, rng.random() < 0.3 or long_run)
    if kind == "serial":
        sched["seg"] = rng.choice(("full", "full", "full", "random", "small"))
    encoding = rng.choice((0, 0, 0, 0, 0, 0, 1, 1, 1, 3, 5, 9)) if kind == "socket" else 0
    chunkify = None
    if encoding and rng.random() < 0.7:
        # the peer really speaks chunked, but not always well
        total = sum(len(it[1]) // 2 for it in items)
        ncut = rng.choice((0, 1, 3, 8))
        cuts = sorted({rng.randrange(1, total) for _ in range(ncut)}) if total > 1 else []
        corrupt = []
        for _ in range(rng.choice((0, 1, 1, 2))):
            corrupt.append([rng.randrange(len(cuts) + 1), rng.choice(("size", "size", "size", "bigger", "smaller", "noterm", "lfonly")), rng.randrange(1, 1000)])
        chunkify = {"cuts": cuts, "corrupt": corrupt, "final": rng.random() < 0.7}
        if chunkify["corrupt"] or True:
            sched = W.gen_fault_sched(rng, kind, [], rng.random() < 0.5)  # aims would be keyed on the un-encoded offsets
    return {
        "prop": PROP,
        "kind": kind,
        "bufsize": rng.choice((1, 2, 3, 5, 7, 64, 512, 4096)),
        "rawbuf": rng.choice((1, 8, 64, 8192)),
        "encoding": encoding,
        "chunkify": chunkify,
        "items": items,
        "driver": rng.choice(("iterate", "read", "read")),
        "max_none": rng.choice((0, 1, 3, 8)),
        "resume": rng.random() < 0.8,
        "opts": {
            "quitonerror": rng.choice((0, 1, 2)),
            "validate": rng.choice((0, 1)),
            "parsed": rng.random() < 0.9,
            "labelmsm": rng.choice((1, 2)),
            "handler": rng.choice((False, False) + W.HANDLER_KINDS),
        },
        "sched": sched,
    }


HOSTILE_SIZE_LINES = (
    "ffffffffffffffffffff", "7fffffffffffffff", "8000000000000000", "ffffffff", "100000000", "-5", "-ffffffffffffffffffff",
    "zz", "", " ", "0x10", "1_0", "+3", "1e3", "00000000000000000000000000000003", "\xff\xfe", "3;ext=1", "0",
)


def hostile_chunked(data, spec):
    """the wire, chunk-encoded at the given cuts, with some size lines / terminators
    corrupted: what a chunked-transfer peer that misbehaves (or a damaged line)
    can deliver to a socket configured with encoding=chunked"""
    cuts = [c for c in spec.get("cuts", []) if 0 < c < len(data)]
    bodies = [data[a:b] for a, b in zip([0] + cuts, cuts + [len(data)]) if b > a]
    out = bytearray()
    corrupt = {c[0]: c for c in spec.get("corrupt", [])}
    for i, b in enumerate(bodies):
        c = corrupt.get(i)
        size = b"%x" % len(b)
        term = b"\r\n"
        if c:
            if c[1] == "size":
                size = HOSTILE_SIZE_LINES[c[2] % len(HOSTILE_SIZE_LINES)].encode("latin-1")
            elif c[1] == "bigger":
                size = b"%x" % (len(b) + c[2])
            elif c[1] == "smaller":
                size = b"%x" % max(0, len(b) - c[2])
            elif c[1] == "noterm":
                term = b""
            elif c[1] == "lfonly":
                term = b"\n"
        out += size + b"\r\n" + b + term
    if spec.get("final", True):
        out += b"0\r\n\r\n"
    return bytes(out)


def direct_calls(items, labelmsm, lib):
    """pure part: constructor and static parser on the scenario's own items"""
    from pyrtcm import RTCMMessage, RTCMReader

    n = 0
    for it in items:
        if it[0] not in ("frame", "filler", "undec", "bad"):
            continue
        raw = bytes.fromhex(it[1])
        tries = [("RTCMMessage(payload)", lambda r=raw: RTCMMessage(payload=r[3:-3], labelmsm=labelmsm))]
        for val in (0, 1):
            tries.append((f"RTCMReader.parse(validate={val})", lambda r=raw, v=val: RTCMReader.parse(r, validate=v, labelmsm=labelmsm)))
        tries.append(("RTCMReader.parse(truncated)", lambda r=raw: RTCMReader.parse(r[: len(r) // 2], validate=0, labelmsm=labelmsm)))
        for name, fn in tries:
            n += 1
            try:
                fn()
            except lib:
                pass
            except Exception as e:  # pylint: disable=broad-except
                return n, violation(PROP, f"direct-foreign-exception:{type(e).__name__}", f"{name} on {it[0]} item ({it[2]}, {len(raw)} bytes) raised {type(e).__name__}: {e}")
    return n, None


def _exec_direct(scn):
    from pyrtcm import RTCMMessage, RTCMReader

    name, hx = scn["direct"]
    buf = bytes.fromhex(hx)
    lib = W.lib_exceptions()
    viol = None
    try:
        if name.startswith("RTCMMessage"):
            RTCMMessage(payload=buf)
        else:
            RTCMReader.parse(buf, validate=1 if "validate=1" in name else 0)
    except lib:
        pass
    except Exception as e:  # pylint: disable=broad-except
        viol = violation(PROP, f"direct-foreign-exception:{type(e).__name__}", f"{name} on {hx or 'empty buffer'} raised {type(e).__name__}: {e}")
    return {"digest": digest_of((name, hx, viol and viol["class"])), "violation": viol, "explicit": scn, "stats": {}}


def execute(scn):
    from pyrtcm import RTCMReader

    if "direct" in scn:
        return _exec_direct(scn)
    items = scn["items"]
    data = W.wire_of(items)
    if scn.get("chunkify"):
        data = hostile_chunked(data, scn["chunkify"])
    kind = scn["kind"]
    decider = W.make_decider(scn, kind)
    max_none = scn.get("max_none", 0)
    budget = 3 * len(data) + 10 * max_none + 100
    st = W.Stream(kind, data, decider, budget, rawbuf=scn.get("rawbuf", 64))
    if st.link is not None:
        st.link.budget_per_fault = 10
    o = scn["opts"]
    lib = W.lib_exceptions()
    kwf, calls = W.make_handler(o.get("handler"))
    viol = None
    events = []
    try:
        rd = RTCMReader(st.obj, validate=o["validate"], quitonerror=o["quitonerror"], labelmsm=o.get("labelmsm", 1), parsed=o.get("parsed", True), bufsize=scn.get("bufsize", 4096), encoding=scn.get("encoding", 0), **kwf())
    except SimBudgetExceeded as e:
        viol = violation(PROP, "non-termination", str(e))
        rd = None
    except Exception as e:  # pylint: disable=broad-except
        viol = violation(PROP, f"constructor-exception:{type(e).__name__}", f"RTCMReader(...) raised {type(e).__name__}: {e}")
        rd = None
    if rd is not None:
        try:
            events = W.drive(rd, st, scn.get("driver", "iterate"), max_none, resume_on_raise=scn.get("resume", True))
        except SimBudgetExceeded as e:
            viol = violation(PROP, "non-termination", f"{e} for a wire of {len(data)} bytes and {st.fault_count()} faults")
    q = o["quitonerror"]
    nraise = 0
    for ev in events:
        if ev[0] != "raise":
            continue
        nraise += 1
        e = ev[1]
        if not isinstance(e, lib):
            viol = viol or violation(PROP, f"foreign-exception:{type(e).__name__}", f"{type(e).__name__} left the reader (quitonerror={q}, validate={o['validate']}): {e}")
        elif q != 2:
            viol = viol or violation(PROP, f"raise-in-quiet-mode:{type(e).__name__}", f"quitonerror={q} but {type(e).__name__} left the iterator: {e}")
    ndirect = 0
    if viol is None:
        ndirect, viol = direct_calls(items, o.get("labelmsm", 1), lib)
    decoded = sum(1 for it in items if it[0] in ("frame", "undec", "filler"))
    nfault = st.fault_count()
    taken = st.link.taken if st.link else []
    explicit = {k: v for k, v in scn.items() if k != "sched"}
    explicit["decisions"] = taken
    counters = {
        "kind:" + kind: 1,
        "link_model:" + scn.get("sched", {}).get("model", "adversarial" if "sched" in scn else "script"): 1,
        "opt:q%d_v%d" % (q, o["validate"]): 1,
        "frames_delivered": sum(1 for e in events if e[0] == "frame"),
        "lib_exceptions_raised": nraise,
        "handler_calls": len(calls),
        "transport_calls": st.calls(),
        "direct_calls": ndirect,
    }
    if scn.get("encoding"):
        counters["socket_with_encoding"] = 1
    if scn.get("chunkify"):
        counters["socket_chunked_peer"] = 1
        counters["socket_chunked_peer_corruptions"] = len(scn["chunkify"].get("corrupt", []))
    if st.link:
        for k, v in st.link.fired.items():
            counters["fault:" + k.split(":")[0]] = counters.get("fault:" + k.split(":")[0], 0) + v
    sets = {"fault_site_matrix": W.fault_sites(st.link, items)}
    nos = set()
    for it in items:
        if it[0] in ("undec", "frame"):
            no = wire.frame_msgno(bytes.fromhex(it[1]))
            if no is not None:
                nos.add(no)
    sets["msgnos_decoded"] = nos
    sets["exception_types"] = {type(e[1]).__name__ for e in events if e[0] == "raise"} | {type(c).__name__ for c in calls}
    evd = [(e[0], bytes(e[1]) if e[0] == "frame" else (type(e[1]).__name__ if e[0] == "raise" else None)) for e in events]
    return {
        "digest": digest_of((st.link.log if st.link else None, evd, [type(c).__name__ for c in calls], viol and viol["class"])),
        "violation": viol,
        "explicit": explicit,
        "stats": {
            "nontrivial": decoded > 0 and (nraise > 0 or len(calls) > 0 or nfault > 0),
            "scn_d64": d64((items, kind, scn["bufsize"], scn.get("rawbuf"), scn.get("encoding"), taken, sorted(o.items()), scn.get("driver"), max_none, scn.get("resume"))),
            "counters": counters,
            "sets": sets,
            "sim_seconds": float(getattr(decider, "now", 0.0)),
        },
    }


def simplify(scn):
    if "direct" in scn:
        return
    items = scn["items"]
    for i, it in enumerate(items):
        raw = bytes.fromhex(it[1])
        if it[0] in ("undec", "frame", "filler") and len(raw) > 6:
            p = raw[3:-3]
            for np_ in (p[: len(p) // 2], p[:-1], p[:2], p[:3]):
                if len(np_) < len(p):
                    cand = dict(scn)
                    cand["items"] = items[:i] + [[it[0], wire.rtcm_frame(np_).hex(), it[2]]] + items[i + 1 :]
                    yield cand
    for key, val in (("kind", "bytesio"), ("bufsize", 4096), ("driver", "iterate"), ("max_none", 0)):
        if scn.get(key) != val:
            cand = dict(scn)
            cand[key] = val
            yield cand
    o = scn["opts"]
    for key, val in (("quitonerror", 1), ("validate", 1), ("parsed", True), ("labelmsm", 1), ("handler", False)):
        if o.get(key) != val:
            cand = dict(scn)
            cand["opts"] = dict(o, **{key: val})
            yield cand
    ch = scn.get("chunkify")
    if ch:
        for i in range(len(ch.get("corrupt", []))):
            cand = dict(scn)
            cand["chunkify"] = dict(ch, corrupt=ch["corrupt"][:i] + ch["corrupt"][i + 1 :])
            yield cand
        for i in range(len(ch.get("cuts", []))):
            cand = dict(scn)
            cand["chunkify"] = dict(ch, cuts=ch["cuts"][:i] + ch["cuts"][i + 1 :])
            yield cand
    dec = scn.get("decisions") or []
    for i, d in enumerate(dec):
        if d[0] != "d":
            cand = dict(scn)
            cand["decisions"] = dec[:i] + [["d", 1 << 20]] + dec[i + 1 :]
            yield cand
    if dec:
        cand = dict(scn)
        cand["decisions"] = []
        yield cand


def sample_view(scn, out):
    ex = out["explicit"]
    return {
        "stream_kind": ex["kind"],
        "bufsize": ex["bufsize"],
        "encoding": ex.get("encoding", 0),
        "driver": [ex.get("driver"), ex.get("max_none"), ex.get("resume")],
        "reader_options": ex["opts"],
        "items": [[it[0], len(it[1]) // 2, it[2]] for it in ex["items"][:25]],
        "transport_schedule": [d[1] if d[0] == "d" else ":".join(map(str, d)) for d in ex["decisions"][:40]],
        "violation": out["violation"] and out["violation"]["class"],
    }


# ---------------------------------------------------------------------------
# enumeration sub-step (pure part): all short buffers over a small alphabet
# ---------------------------------------------------------------------------


def systematic(tier, master, workers):
    from pyrtcm import RTCMMessage, RTCMReader

    lib = W.lib_exceptions()
    maxlen = 5 if tier == "quick" else 7
    n = 0
    viols = []
    for ln in range(0, maxlen + 1):
        for tup in itertools.product(SHORT_ALPHABET, repeat=ln):
            buf = bytes(tup)
            for name, fn in (
                ("RTCMMessage(payload)", lambda b=buf: RTCMMessage(payload=b)),
                ("RTCMReader.parse(validate=0)", lambda b=buf: RTCMReader.parse(b, validate=0)),
                ("RTCMReader.parse(validate=1)", lambda b=buf: RTCMReader.parse(b, validate=1)),
            ):
                n += 1
                try:
                    fn()
                except lib:
                    pass
                except Exception as e:  # pylint: disable=broad-except
                    if len(viols) < 1:
                        v = violation(PROP, f"direct-foreign-exception:{type(e).__name__}", f"{name} on {buf.hex() or 'empty buffer'} raised {type(e).__name__}: {e}")
                        v["explicit"] = {"prop": PROP, "direct": [name, buf.hex()]}
                        viols.append(("sys", v))
    # every message number once, with a short arbitrary body (stub or decoder path)
    for no in range(4096):
        for nbytes in (2, 3, 9):
            p = wire.rtcm_payload(no, (no * 2654435761) & ((1 << (nbytes * 8 - 12)) - 1), nbytes)
            n += 1
            try:
                RTCMMessage(payload=p)
            except lib:
                pass
            except Exception as e:  # pylint: disable=broad-except
                if len(viols) < 1:
                    v = violation(PROP, f"direct-foreign-exception:{type(e).__name__}", f"RTCMMessage(payload) for message number {no}, {nbytes} bytes raised {type(e).__name__}: {e}")
                    v["explicit"] = {"prop": PROP, "direct": ["RTCMMessage(payload)", p.hex()]}
                    viols.append(("sys", v))
    return {"coverage": {"direct_calls_enumerated": n, "direct_calls_note": "pure part of C04: plain enumeration of constructor/static-parser inputs (all buffers of length 0..%d over alphabet %s; every message number x 3 lengths); not simulation and not counted in evaluations" % (maxlen, [hex(x) for x in SHORT_ALPHABET])}, "violations": viols}
