"""Seed derivation: one integer decides everything.

Integer arithmetic only -- never Python's hash(), which is randomised per
process.  run i of property P under master seed S uses
    run_seed(S, P, i) = splitmix64(S xor fnv64(P) xor i*PHI)
"""

import random

MASK = (1 << 64) - 1
PHI = 0x9E3779B97F4A7C15


def splitmix64(x: int) -> int:
    x = (x + PHI) & MASK
    z = x
    z = ((z ^ (z >> 30)) * 0xBF58476D1CE4E5B9) & MASK
    z = ((z ^ (z >> 27)) * 0x94D049BB133111EB) & MASK
    return z ^ (z >> 31)


def fnv64(text: str) -> int:
    h = 0xCBF29CE484222325
    for b in text.encode("utf-8"):
        h ^= b
        h = (h * 0x100000001B3) & MASK
    return h


def run_seed(master: int, prop: str, index: int) -> int:
    return splitmix64((master & MASK) ^ fnv64(prop) ^ ((index * PHI) & MASK))


def rng_for(master: int, prop: str, index: int, stream: str = "") -> random.Random:
    s = run_seed(master, prop, index)
    if stream:
        s = splitmix64(s ^ fnv64(stream))
    return random.Random(s)
