"""Shared world for the reader-level properties (C01 C02 C04 C05 C11/2 C17):
peer item generators, stream construction, application drivers, outcome
canonicalisation.  Items are JSON-able: [kind, hex, tag].

kinds
  frame   valid RTCM3 frame carrying a message number that the pinned
          definitions decode (real / unknown-number / padded synthetic)
  filler  valid frame too short to carry an identity (0/1-byte payload,
          2-byte 4076)
  undec   valid frame whose payload the definitions reject
  nmea, ubx, noise   complete foreign items / inert noise
  bad     anything else (damaged, truncated, junk, near-frames)
"""

import io

from . import corpus, wire
from .transports import CountingBytesIO, Link, SimBudgetExceeded, SimRaw, SimSerial, SimSocket

# ---------------------------------------------------------------------------
# item generators
# ---------------------------------------------------------------------------


def gen_frame(rng, mix=(0.4, 0.35, 0.25)):
    """valid, decodable, number-carrying frame.  mix = (real, unknown, synth)"""
    r = rng.random()
    if r < mix[0]:
        ident, fr = rng.choice(corpus.real_frames())
        return ["frame", fr.hex(), "real:" + ident]
    if r < mix[0] + mix[1]:
        fr = corpus.unknown_frame(rng)
        return ["frame", fr.hex(), "unknown"]
    ident, need, p = rng.choice(corpus.synth_payloads())
    return ["frame", wire.rtcm_frame(p).hex(), "synth:" + ident]


def gen_filler(rng):
    k = rng.randrange(4)
    if k == 0:
        p = b""
    elif k == 1:
        # 1-byte payload; often a sync byte, so that a reader which does not consume the
        # frame by its declared length re-scans it as the start of something else
        p = bytes([rng.choice((0xD3, 0x24, 0xB5, 0x76, 0x82, 0xFF, rng.randrange(256), rng.randrange(256)))])
    elif k == 2:
        p = wire.rtcm_payload(4076, rng.getrandbits(4), 2)
    else:
        p = b""
    return ["filler", wire.rtcm_frame(p).hex(), "len%d" % len(p)]


_NMEA_FMT = ("GGA", "RMC", "GSV", "GSA", "VTG", "TXT", "UBX", "ZDA")
_NMEA_CH = "0123456789.,-ABCDEFNSEWMabc "


def gen_nmea(rng):
    talker = rng.choice(wire.NMEA_TALKERS)
    n = rng.choice((0, 3, 10, 30, 60, 70))
    body = rng.choice(_NMEA_FMT) + "," + "".join(rng.choice(_NMEA_CH) for _ in range(n))
    return ["nmea", wire.nmea_sentence(talker, body).hex(), talker]


def sync_dense(rng, n):
    alpha = (0xD3, 0xD3, 0xB5, 0x62, 0x24, 0x47, 0x00, 0x01, 0x03, 0x0D, 0x0A, rng.randrange(256))
    return bytes(alpha[rng.randrange(len(alpha))] for _ in range(n))


def gen_ubx(rng):
    n = rng.choice((0, 0, 1, 2, 4, 8, 28, 36, 100, 300, rng.randrange(0, 700)))
    if rng.random() < 0.004:
        # the UBX length field is 16 bits unsigned: payloads beyond 32767 are legal
        p = sync_dense(rng, 64) * (rng.choice((32768, 40000, 65534, 65535)) // 64 + 1)
        p = p[: rng.choice((32768, 40000, 65534, 65535))]
        return ["ubx", wire.ubx_frame(rng.randrange(256), rng.randrange(256), p).hex(), "len%d" % len(p)]
    style = rng.randrange(4)
    if style == 0:
        p = sync_dense(rng, n)
    elif style == 1:
        # an embedded valid frame inside the UBX payload
        _, fr = rng.choice(corpus.real_frames())
        p = (bytes(rng.randrange(256) for _ in range(rng.randrange(0, 5))) + fr)[: max(n, 0)] if n else b""
        if rng.random() < 0.5:
            p = bytes(rng.randrange(256) for _ in range(rng.randrange(0, 5))) + fr
    else:
        p = bytes(rng.randrange(256) for _ in range(n))
    return ["ubx", wire.ubx_frame(rng.randrange(256), rng.randrange(256), p).hex(), "len%d" % len(p)]


def gen_noise(rng):
    return ["noise", wire.inert_noise(rng, rng.choice((1, 1, 2, 3, 7, 20, 50))).hex(), ""]


def gen_wellformed_items(rng, n, p_filler=0.08, end_with_frame=0.9, mix=(0.4, 0.35, 0.25)):
    """C02-class script: well-formed items only"""
    items = []
    p_repeat = rng.choice((0.0, 0.0, 0.15, 0.4))
    for _ in range(n):
        r = rng.random()
        prev = [it for it in items if it[0] == "frame"]
        if prev and rng.random() < p_repeat:
            # the same frame again, verbatim (stations repeat static messages)
            it = prev[-1] if rng.random() < 0.5 else rng.choice(prev)
            items.append([it[0], it[1], it[2]])
        elif r < 0.55:
            items.append(gen_frame(rng, mix))
        elif r < 0.55 + p_filler:
            items.append(gen_filler(rng))
        elif r < 0.75:
            items.append(gen_nmea(rng))
        elif r < 0.9:
            items.append(gen_ubx(rng))
        else:
            items.append(gen_noise(rng))
    if rng.random() < end_with_frame:
        items.append(gen_frame(rng, mix))
    return items


# --- hostile items (C01 / C04) ---------------------------------------------


def gen_undecodable(rng):
    """CRC-valid frame whose payload a defined type's layout rejects, or
    arbitrary payload under any message number"""
    k = rng.randrange(5)
    if k == 0 and corpus.real_undecodable():
        _, fr = rng.choice(corpus.real_undecodable())
        return ["undec", fr.hex(), "real"]
    if k == 1:
        # truncated valid payload (every cut point reachable)
        ident, need, p = rng.choice(corpus.synth_payloads())
        cut = rng.randrange(0, need) if need > 0 else 0
        return ["undec", wire.rtcm_frame(p[:cut]).hex(), f"trunc:{ident}:{cut}"]
    if k == 2:
        # arbitrary payload, any number, any length
        n = rng.choice((0, 1, 2, 3, 4, 5, 8, 16, 64, 200, 1023, rng.randrange(0, 1024)))
        p = bytes(rng.getrandbits(8) for _ in range(n))
        if n >= 2 and rng.random() < 0.7:
            ident, _, _ = rng.choice(corpus.synth_payloads())
            no = int(ident[:4])
            p = wire.rtcm_payload(no, int.from_bytes(p, "big"), n)
        return ["undec", wire.rtcm_frame(p).hex(), f"arb:{n}"]
    if k == 3:
        # counters and masks forced to maximum: all-ones body behind the header
        ident, need, p = rng.choice(corpus.synth_payloads())
        n = rng.choice((need, min(1023, need * 2), 1023, rng.randrange(2, 1024)))
        hdr = 3 if ident.startswith("4076") else 2
        body = bytearray(p[:n].ljust(n, b"\xff"))
        for i in range(hdr, len(body)):
            if rng.random() < 0.9:
                body[i] = 0xFF
        return ["undec", wire.rtcm_frame(bytes(body)).hex(), f"ones:{ident}"]
    # spliced bodies: header of one type, body of another
    i1, n1, p1 = rng.choice(corpus.synth_payloads())
    i2, n2, p2 = rng.choice(corpus.synth_payloads())
    hdr = 3 if i1.startswith("4076") else 2
    p = (p1[:hdr] + p2[hdr : rng.randrange(hdr, len(p2) + 1)])[:1023]
    if rng.random() < 0.5:
        b = bytearray(p)
        for _ in range(rng.randrange(1, 6)):
            if len(b) > hdr:
                j = rng.randrange(hdr * 8, len(b) * 8)
                b[j >> 3] ^= 0x80 >> (j & 7)
        p = bytes(b)
    return ["undec", wire.rtcm_frame(p).hex(), f"splice:{i1}:{i2}"]


def gen_bad(rng):
    """damaged / truncated / junk / near-frame item"""
    k = rng.randrange(11)
    base = bytes.fromhex(gen_frame(rng)[1])
    if k == 0:  # bit flips anywhere, header included
        n = rng.choice((1, 1, 2, 3, 8))
        return ["bad", wire.flip_bits(base, [rng.randrange(len(base) * 8) for _ in range(n)]).hex(), "flip"]
    if k == 1:  # truncated frame
        return ["bad", base[: rng.randrange(1, len(base))].hex(), "trunc"]
    if k == 2:  # length field rewritten
        b = bytearray(base)
        ln = rng.choice((0, 1, len(base) - 7, len(base) - 5, 1023, rng.randrange(1024)))
        ln = max(0, min(1023, ln))
        b[1] = ln >> 8
        b[2] = ln & 0xFF
        return ["bad", bytes(b).hex(), "lenrw"]
    if k == 3:  # reserved bits set, CRC *recomputed* so that it matches
        b = bytearray(base[:-3])
        b[1] |= rng.choice((0x04, 0x08, 0x10, 0x80, 0xFC))
        return ["bad", (bytes(b) + wire.crc24q(bytes(b)).to_bytes(3, "big")).hex(), "resv+crc"]
    if k == 9:  # reserved bits set so that the 16-bit length is self-consistent (>= 1024 payload bytes), CRC matches
        bit = rng.choice((0x04, 0x04, 0x08))
        n = (bit << 8) | rng.choice((0, 1, 5, rng.randrange(0, 60)))
        body = bytes((0xD3, n >> 8, n & 0xFF)) + wire.rtcm_payload(rng.choice(corpus.UNASSIGNED), rng.getrandbits(64), n)
        return ["bad", (body + wire.crc24q(body).to_bytes(3, "big")).hex(), "resv16"]
    if k == 10:  # length field lies: announces n payload bytes, carries k < n, CRC matches the short span
        p = bytes.fromhex(gen_frame(rng)[1])[3:-3]
        kk = rng.randrange(max(1, len(p) // 2), len(p) + 1) if len(p) > 2 else len(p)
        n = min(1023, kk + rng.choice((1, 1, 2, 3, 10, 100)))
        body = bytes((0xD3, n >> 8, n & 0xFF)) + p[:kk]
        return ["bad", (body + wire.crc24q(body).to_bytes(3, "big")).hex(), "lenlie:%d" % kk]
    if k == 4:  # sync dense junk
        return ["bad", sync_dense(rng, rng.choice((1, 2, 3, 5, 9, 30, 100))).hex(), "junk"]
    if k == 5:  # CRC off by one bit
        j = rng.randrange(24)
        return ["bad", wire.flip_bits(base, [(len(base) - 3) * 8 + j]).hex(), "crcbit"]
    if k == 6:  # bytes dropped / inserted inside
        b = bytearray(base)
        j = rng.randrange(len(b))
        if rng.random() < 0.5:
            del b[j : j + rng.randrange(1, 4)]
        else:
            b[j:j] = sync_dense(rng, rng.randrange(1, 4))
        return ["bad", bytes(b).hex(), "indel"]
    if k == 7:  # cut NMEA / cut UBX / false two-byte headers
        c = rng.randrange(4)
        if c == 0:
            s = bytes.fromhex(gen_nmea(rng)[1])
            return ["bad", s[: rng.randrange(1, len(s))].hex(), "cutnmea"]
        if c == 1:
            s = bytes.fromhex(gen_ubx(rng)[1])
            return ["bad", s[: rng.randrange(1, len(s))].hex(), "cutubx"]
        if c == 2:
            return ["bad", bytes((0xD3, rng.randrange(4))).hex(), "d30x"]
        return ["bad", rng.choice((b"\xb5\xd3", b"$\xd3", b"\xd3\xd3", b"\xb5b", b"$G", b"\xd3\x00\x00")).hex(), "hdrpair"]
    # payload of an earlier style: wrong CRC bytes entirely
    return ["bad", (base[:-3] + bytes(rng.getrandbits(8) for _ in range(3))).hex(), "crcrand"]


def damaged_copy(rng, raw):
    """copy of an earlier frame damaged in the payload only, in the CRC only,
    or carrying the CRC bytes of another frame"""
    k = rng.randrange(3)
    nbits = len(raw) * 8
    if k == 0 and len(raw) > 6:
        n = rng.choice((1, 2, 3))
        return wire.flip_bits(raw, [rng.randrange(24, nbits - 24) for _ in range(n)]), "copy:payload"
    if k == 1:
        return wire.flip_bits(raw, [rng.randrange(nbits - 24, nbits)]), "copy:crc"
    p = bytes(raw[3:-3])
    if len(p) > 2:
        j = rng.randrange(2, len(p))
        p = p[:j] + bytes([p[j] ^ (1 << rng.randrange(8))]) + p[j + 1 :]
    return raw[:3] + p + raw[-3:], "copy:samecrc"


def gen_long_error_run(rng, n, style=None):
    """n tiny items every one of which the reader has to reject (deep error
    histories: retry/recursion/accumulation bugs need hundreds of them)"""
    style = style if style is not None else rng.randrange(4)
    items = []
    for _ in range(n):
        k = style if style < 3 else rng.randrange(3)
        if k == 0:
            items.append(["bad", bytes((0xD3, rng.choice((0xFC, 0x04, 0x80, 0xFF)))).hex(), "d3xx"])
        elif k == 1:
            f = wire.rtcm_frame(b"")
            items.append(["bad", (f[:-1] + bytes([f[-1] ^ 1])).hex(), "tinybadcrc"])
        else:
            items.append(["filler", wire.rtcm_frame(b"").hex(), "len0"])
    return items


def gen_long_valid_run(rng, n, p_foreign=0.03):
    """n small valid number-carrying frames (a long-lived connection: bugs that
    need hundreds of deliveries through one reader -- counters, cache eviction,
    offset drift -- stay invisible in scripts of a few dozen items).  A handful
    of distinct frames recur (verbatim repeats), the rest are fresh."""
    pool = [gen_frame(rng, mix=(0.5, 0.3, 0.2)) for _ in range(rng.choice((1, 3, 8)))]
    pool = [it for it in pool if len(it[1]) <= 2 * 120] or [["frame", corpus.unknown_frame(rng, 4).hex(), "unknown"]]
    items = []
    for _ in range(n):
        r = rng.random()
        if r < p_foreign:
            items.append(gen_nmea(rng) if rng.random() < 0.5 else gen_ubx(rng))
        elif r < 0.35:
            it = rng.choice(pool)
            items.append([it[0], it[1], it[2]])
        else:
            items.append(["frame", corpus.unknown_frame(rng, rng.choice((2, 3, 4, 6, 9, 17))).hex(), "unknown"])
    return items


def gen_boundary_faults(rng, items, faults):
    """socket faults (timeouts, OS errors) aimed exactly at item boundaries, where the
    reader holds no partly consumed item: an application that polls again must lose
    nothing and see nothing twice.  Returns (aims, poll) -- poll = number of
    consecutive empty results the application has to tolerate."""
    offs = [0] + [e for (_s, e) in offsets_of(items)][:-1]
    k = rng.choice((1, 1, 2, 3, min(len(offs), 40)))  # bounded: the application loop records at most 5000 events
    chosen = sorted(rng.sample(offs, min(k, len(offs))))
    aims = []
    for o in chosen:
        aims.append([o, list(rng.choice(faults))])
        if rng.random() < 0.25:
            aims.append([o, list(rng.choice(faults))])  # two in a row
    return aims, len(aims) + 1


def gen_hostile_items(rng, n):
    items = []
    p_copy = rng.choice((0.0, 0.0, 0.15, 0.4))
    for _ in range(n):
        r = rng.random()
        prev = [it for it in items if it[0] == "frame"]
        if prev and rng.random() < p_copy:
            it = prev[-1] if rng.random() < 0.5 else rng.choice(prev)
            if rng.random() < 0.3:
                items.append([it[0], it[1], it[2]])
            else:
                dmg, tag = damaged_copy(rng, bytes.fromhex(it[1]))
                items.append(["bad", dmg.hex(), tag])
        elif r < 0.35:
            items.append(gen_frame(rng))
        elif r < 0.5:
            items.append(gen_bad(rng))
        elif r < 0.62:
            items.append(gen_undecodable(rng))
        elif r < 0.68:
            items.append(gen_filler(rng))
        elif r < 0.78:
            items.append(gen_nmea(rng))
        elif r < 0.88:
            items.append(gen_ubx(rng))
        else:
            items.append(gen_noise(rng))
    return items


def wire_of(items):
    return b"".join(bytes.fromhex(it[1]) for it in items)


def offsets_of(items):
    offs = []
    p = 0
    for it in items:
        n = len(it[1]) // 2
        offs.append((p, p + n))
        p += n
    return offs


def must_deliver(items):
    """frames a well-formed-input reader has to deliver, in order"""
    return [bytes.fromhex(it[1]) for it in items if it[0] == "frame"]


# ---------------------------------------------------------------------------
# streams
# ---------------------------------------------------------------------------

STREAM_KINDS = ("bytesio", "buffered", "socket", "serial")


class Stream:
    """what a run needs to know about the stream it handed to the reader"""

    def __init__(self, kind, data, decider, budget, rawbuf=64):
        self.kind = kind
        self.data = data
        self.link = None
        if kind == "bytesio":
            self.obj = CountingBytesIO(data, budget)
        else:
            self.link = Link(data, decider, budget)
            if kind == "buffered":
                self.obj = io.BufferedReader(SimRaw(self.link), buffer_size=rawbuf)
            elif kind == "socket":
                self.obj = SimSocket(self.link)
            elif kind == "serial":
                self.obj = SimSerial(self.link)
            else:
                raise ValueError(kind)

    def handed(self) -> bytes:
        if self.link is None:
            return self.data[: self.obj.tell()]
        return self.data[: self.link.pos]

    def pos(self) -> int:
        return self.obj.tell() if self.link is None else self.link.pos

    def at_eof(self) -> bool:
        if self.link is None:
            return self.obj.tell() >= len(self.data)
        return self.link.eof_seen or self.link.pos >= self.link.end

    def calls(self) -> int:
        return self.obj.calls if self.link is None else self.link.calls

    def fault_count(self) -> int:
        return 0 if self.link is None else sum(self.link.fired.values())


# ---------------------------------------------------------------------------
# application drivers
# ---------------------------------------------------------------------------


def drive(reader, stream, mode="iterate", max_none=0, resume_on_raise=True, max_events=5000, handover=None):
    """Run the application loop.  Returns the event list:
    ("frame", raw, parsed) | ("raise", exc) | ("none",) | ("stop",)
    SimBudgetExceeded propagates (it is the non-termination signal).
    handover = (k, factory): after k delivered frames the application builds a
    new reader over the old reader's public `datastream`, drops the old reader
    and has it garbage collected (the connection is handed from one reader
    object to the next)."""
    import gc

    if not hasattr(reader, "read"):
        reader = reader()  # a factory: nobody but this loop ever references the reader object
    events = []
    nones = 0
    nframes = 0
    while len(events) < max_events:
        if handover is not None and nframes >= handover[0]:
            new = handover[1](reader.datastream)
            reader = new
            del new
            gc.collect()
            handover = None
        try:
            if mode == "iterate":
                raw, parsed = next(reader)
            else:
                raw, parsed = reader.read()
        except StopIteration as e:
            if mode != "iterate":  # StopIteration may leave __next__ only
                events.append(("raise", e))
                if not resume_on_raise:
                    break
                continue
            events.append(("stop",))
            nones += 1
            if nones > max_none or stream.at_eof():
                break
            continue
        except SimBudgetExceeded:
            raise
        except BaseException as e:  # pylint: disable=broad-except
            events.append(("raise", e))
            if not resume_on_raise:
                break
            continue
        if raw is None and parsed is None:
            events.append(("none",))
            nones += 1
            if nones > max_none or stream.at_eof():
                break
            continue
        nones = 0
        nframes += 1
        events.append(("frame", raw, parsed, stream.pos()))
    return events


def public_dict(msg):
    """ordered public attribute list of a parsed message"""
    if msg is None:
        return None
    return [(k, v) for k, v in msg.__dict__.items() if not k.startswith("_")]


def canon_msg(msg):
    if msg is None:
        return None
    return (msg.identity, bytes(msg.payload), tuple(public_dict(msg)), str(msg), bytes(msg.serialize()))


def lib_exceptions():
    import inspect

    import pyrtcm.exceptions as ex

    return tuple(
        c for _, c in inspect.getmembers(ex, inspect.isclass) if issubclass(c, BaseException) and c.__module__ == ex.__name__
    )


# ---------------------------------------------------------------------------
# guaranteed-detectable line damage (C05, C11 level 2, C17)
# ---------------------------------------------------------------------------


def damage_detectable(rng, raw: bytes):
    """Damage confined to one frame, behind its 3-byte header, of a kind the
    CRC-24Q generator (degree 24, factor x+1, period 2^23-1) always detects:
    1, 2 or 3 flipped bits, or one burst of <= 24 bits.  Returns (bytes, tag)."""
    nbits = len(raw) * 8
    lo = 24
    crc0 = (len(raw) - 3) * 8
    anchors = (lo, lo + 1, crc0 - 1, crc0, crc0 + 1, nbits - 1, nbits - 2)
    k = rng.randrange(5)
    if k <= 2:
        n = k + 1
        offs = set()
        while len(offs) < n:
            o = rng.choice(anchors) if rng.random() < 0.4 else rng.randrange(lo, nbits)
            if lo <= o < nbits:
                offs.add(o)
        return wire.flip_bits(raw, sorted(offs)), "flip%d" % n
    width = rng.randrange(2, 25)
    width = min(width, nbits - lo)
    start = rng.choice(anchors) if rng.random() < 0.4 else rng.randrange(lo, nbits - width + 1)
    start = max(lo, min(start, nbits - width))
    pattern = (1 << (width - 1)) | 1 | rng.getrandbits(width)
    return wire.burst(raw, start, pattern, width), "burst%d" % width


# ---------------------------------------------------------------------------
# reach measurement: where (relative to the script) did faults fire?
# ---------------------------------------------------------------------------


def part_of(items, offs, o):
    """(item kind, part) of wire offset o (= bytes delivered before the call)"""
    for (s, e), it in zip(offs, items):
        if s <= o < e:
            k = it[0]
            if k in ("frame", "filler", "undec", "bad"):
                rel = o - s
                if rel == 0:
                    return k, "start"
                if rel < 3:
                    return k, "hdr"
                if o >= e - 3:
                    return k, "crc"
                return k, "payload"
            return k, ("start" if o == s else "body")
    return "end", "eof"


def fault_sites(link, items):
    """set of 'fault@itemkind.part' strings for every fault that fired"""
    sites = set()
    if link is None:
        return sites
    offs = offsets_of(items)
    p = 0
    for op, want, kind, n in link.log:
        if kind == "d":
            if op == "read" and 0 < n < want and p + want <= link.end:
                ik, part = part_of(items, offs, p + n)
                sites.add(f"short_read@{ik}.{part}")
            elif op == "recv" and n < want:
                ik, part = part_of(items, offs, p + n)
                if part not in ("start", "eof"):
                    sites.add(f"recv_split@{ik}.{part}")
            p += n
        elif kind == "eof":
            continue
        else:
            name = {"t": "timeout", "c": "close"}.get(kind, "oserror")
            ik, part = part_of(items, offs, p)
            sites.add(f"{name}@{ik}.{part}")
    return sites


# ---------------------------------------------------------------------------
# fault plans for reader-level runs (C01, C04)
# ---------------------------------------------------------------------------

SOCK_FAULTS = [["t"], ["t"], ["e", "ConnectionResetError"], ["e", "OSError"], ["e", "InterruptedError"], ["e", "BlockingIOError"], ["e", "BrokenPipeError"], ["e", "OSError/noerrno"], ["e", "ConnectionResetError/noargs"], ["e", "TimeoutError/errno"], ["e", "OSError/bigerrno"]]
SERIAL_FAULTS = [["t"]]


def gen_fault_sched(rng, kind, items, fault_free=False):
    """aimed + background fault plan for one run (materialised, JSON-able)"""
    sched = {"seed": rng.getrandbits(48), "seg": rng.choice(("full", "full", "byte", "small", "random", "mixed")), "p_fault": 0.0, "aims": []}
    if fault_free or kind in ("bytesio", "buffered"):
        return sched
    if rng.random() < 0.25:
        # timed model: physically plausible arrival of the peer's writes on a virtual clock;
        # timeouts happen where the line is slower than the reader's patience
        serial = kind == "serial"
        return {
            "model": "timed",
            "seed": sched["seed"],
            "gap": rng.choice((0.0, 0.01, 0.2, 1.0, 5.0)),
            "mss": rng.choice((1, 4, 16, 64)) if serial else rng.choice((1, 8, 64, 536, 1460, 65536)),
            "byte_time": rng.choice((0.0, 1.0 / 960, 1.0 / 11520, 1.0 / 46080)) if serial else 0.0,
            "latency": rng.choice((0.0001, 0.02, 0.3)),
            "jitter": rng.choice((0.0, 0.01, 0.5)),
            "linger": rng.choice((0.0, 0.5, 30.0)),
            "timeout": rng.choice((0.001, 0.05, 0.5, 3.0, None)),
            "think": rng.choice((0.0, 0.00001, 0.001, 0.1)),
            "writes": [len(it[1]) // 2 for it in items],
        }
    offs = offsets_of(items)
    framelike = [i for i, it in enumerate(items) if it[0] in ("frame", "filler", "undec", "bad")]
    naims = rng.choice((0, 1, 1, 2, 3, 5))
    aims = []
    for _ in range(naims):
        if framelike and rng.random() < 0.8:
            s, e = offs[rng.choice(framelike)]
            part = rng.randrange(6)
            if part == 0:
                o = s + rng.choice((1, 2))  # inside header
            elif part == 1:
                o = s + 3  # between length and payload
            elif part == 2:
                o = rng.randrange(s + 3, max(s + 4, e - 3))  # inside payload
            elif part == 3:
                o = max(s, e - 3)  # between payload and crc
            elif part == 4:
                o = max(s, e - rng.choice((1, 2)))  # inside crc
            else:
                o = e  # exactly at the frame boundary
            o = min(o, e)
        elif offs:
            s, e = offs[rng.randrange(len(offs))]
            o = rng.randrange(s, e + 1)
        else:
            o = 0
        if kind == "serial":
            f = rng.choice((["d", 0], ["d", 0], ["t"], ["c"] if rng.random() < 0.2 else ["t"]))
        else:
            f = rng.choice(SOCK_FAULTS + [["d", 0], ["c"]])
        aims.append([o, f])
        if f[0] != "c" and rng.random() < 0.25:
            aims.append([o, rng.choice(SERIAL_FAULTS if kind == "serial" else SOCK_FAULTS)])
    for (s, e), it in zip(offs, items):
        if it[2].startswith("lenlie:") and rng.random() < 0.8:
            # the read of the announced payload comes back short exactly where the lie ends
            aims.append([s + 3 + int(it[2][7:]), ["d", 0]])
    aims.sort(key=lambda a: a[0])
    sched["aims"] = aims
    sched["p_fault"] = rng.choice((0.0, 0.0, 0.0, 0.005, 0.02, 0.08))
    return sched


def make_decider(scn, kind):
    from . import rng as R
    from .transports import RngDecider, ScriptDecider

    if "decisions" in scn:
        return ScriptDecider([tuple(d) for d in scn["decisions"]])
    sch = scn["sched"]
    if sch.get("model") == "timed":
        from .transports import TimedDecider, timed_arrivals

        arr, close_at = timed_arrivals(R.random.Random(sch["seed"]), sch["writes"], sch)
        return TimedDecider(arr, close_at, sch["timeout"], sch["think"], wait_full=(kind == "serial"))
    faults = SERIAL_FAULTS if kind == "serial" else SOCK_FAULTS
    return RngDecider(R.random.Random(sch["seed"]), {"seg": sch["seg"], "p_fault": sch.get("p_fault", 0.0), "faults": faults, "aims": sch.get("aims", ())})


# ---------------------------------------------------------------------------
# user error handlers ("error handling object or function")
# ---------------------------------------------------------------------------

HANDLER_KINDS = ("method", "function", "collector", "falsy", "ephemeral")


class _Collector:
    """a callable error collector: a container of the errors seen so far,
    hence falsy while empty"""

    def __init__(self, calls):
        self._calls = calls

    def __call__(self, err):
        self._calls.append(err)

    def __len__(self):
        return len(self._calls)


class _Falsy:
    def __init__(self, calls):
        self._calls = calls

    def __call__(self, err):
        self._calls.append(err)

    def __bool__(self):
        return False


class _Reporter:
    """an application object whose bound method is the handler"""

    def __init__(self, calls):
        self._calls = calls

    def on_error(self, err):
        self._calls.append(err)


def make_handler(opt):
    """(factory of constructor kwargs, list that records every handler
    invocation).  The factory is called inside the RTCMReader(...) call
    expression, so that for the 'ephemeral' kind nothing but the reader itself
    can keep the handler (and the object it is bound to) alive."""
    calls = []
    if not opt:
        return (lambda: {}), calls
    if opt in (True, "method"):
        return (lambda: {"errorhandler": calls.append}), calls
    if opt == "function":
        fn = lambda err: calls.append(err)  # noqa: E731
        return (lambda: {"errorhandler": fn}), calls
    if opt == "collector":
        col = _Collector(calls)
        return (lambda: {"errorhandler": col}), calls
    if opt == "ephemeral":
        # bound method of an object the application keeps no other reference to
        return (lambda: {"errorhandler": _Reporter(calls).on_error}), calls
    fal = _Falsy(calls)
    return (lambda: {"errorhandler": fal}), calls
