"""Pinned corpus loader (committed files only; nothing derived at check time
from the tree under test)."""

import os

from . import wire

_DIR = os.path.join(os.path.dirname(os.path.dirname(os.path.abspath(__file__))), "corpus")

_cache = {}


def real_frames():
    """list of (identity, frame bytes) the clean tree decodes"""
    if "real" not in _cache:
        ok, bad = [], []
        with open(os.path.join(_DIR, "real.txt")) as f:
            for line in f:
                ident, _name, flag, hx = line.split()
                (ok if flag == "ok" else bad).append((ident, bytes.fromhex(hx)))
        _cache["real"] = ok
        _cache["real_bad"] = bad
    return _cache["real"]


def real_undecodable():
    real_frames()
    return _cache["real_bad"]


def synth_payloads():
    """list of (identity, consumed_len, payload bytes)"""
    if "synth" not in _cache:
        out = []
        with open(os.path.join(_DIR, "synth.txt")) as f:
            for line in f:
                ident, need, hx = line.split()
                out.append((ident, int(need), bytes.fromhex(hx)))
        _cache["synth"] = out
    return _cache["synth"]


def synth_by_identity():
    if "synth_by" not in _cache:
        d = {}
        for ident, need, p in synth_payloads():
            d.setdefault(ident, []).append((need, p))
        _cache["synth_by"] = d
    return _cache["synth_by"]


def family(identity: str) -> str:
    """coarse family used to pair workloads (C13)"""
    if identity.startswith("4076"):
        return "igs"
    try:
        n = int(identity)
    except ValueError:
        return "other"
    if 1070 <= n <= 1229:
        return "msm"
    if 1057 <= n <= 1068 or 1240 <= n <= 1263:
        return "ssr"
    if 1001 <= n <= 1004 or 1009 <= n <= 1012:
        return "obs"
    return "std"


# message numbers RTCM has not assigned: must decode as stubs whatever the tables say
UNASSIGNED = tuple(range(1, 1000)) + tuple(range(2000, 4000))


def unknown_frame(rng, nbytes=None) -> bytes:
    """a frame with an unassigned message number and a seeded payload"""
    if nbytes is None:
        nbytes = rng.choice((2, 3, 4, 8, 20, 60, 255, 256, 257, 511, 512, 513, 1023, rng.randrange(2, 1024)))
    no = rng.choice(UNASSIGNED)
    return wire.rtcm_frame(wire.rtcm_payload(no, rng.getrandbits(max(1, nbytes * 8 - 12)), nbytes))
