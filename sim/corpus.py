"""Pinned corpus loader (committed files only; nothing derived at check time
from the tree under test)."""

import os

from . import wire

_DIR = os.path.join(os.path.dirname(os.path.dirname(os.path.abspath(__file__))), "corpus")

_cache = {}


def real_frames():
    """list of (identity, frame bytes) the clean tree decodes"""
    if "real" not in _cache:
        ok, bad = [], []
        with open(os.path.join(_DIR, "real.txt")) as f:
            for line in f:
                ident, _name, flag, hx = line.split()
                (ok if flag == "ok" else bad).append((ident, bytes.fromhex(hx)))
        _cache["real"] = ok
        _cache["real_bad"] = bad
    return _cache["real"]


def real_undecodable():
    real_frames()
    return _cache["real_bad"]


def synth_payloads():
    """list of (identity, consumed_len, payload bytes)"""
    if "synth" not in _cache:
        out = []
        with open(os.path.join(_DIR, "synth.txt")) as f:
            for line in f:
                ident, need, hx = line.split()
                out.append((ident, int(need), bytes.fromhex(hx)))
        _cache["synth"] = out
    return _cache["synth"]


def synth_by_identity():
    if "synth_by" not in _cache:
        d = {}
        for ident, need, p in synth_payloads():
            d.setdefault(ident, []).append((need, p))
        _cache["synth_by"] = d
    return _cache["synth_by"]


def family(identity: str) -> str:
    """coarse family used to pair workloads (C13)"""
    if identity.startswith("4076"):
        return "igs"
    try:
        n = int(identity)
    except ValueError:
        return "other"
    if 1070 <= n <= 1229:
        return "msm"
    if 1057 <= n <= 1068 or 1240 <= n <= 1263:
        return "ssr"
    if 1001 <= n <= 1004 or 1009 <= n <= 1012:
        return "obs"
    return "std"


# message numbers RTCM has not assigned: must decode as stubs whatever the tables say
UNASSIGNED = tuple(range(1, 1000)) + tuple(range(2000, 4000))


# numbers RTCM 10403.3 reserves inside the MSM block (between and behind the seven constellations'
# MSM1-7 ranges): named "Reserved MSM" by the library, no payload definition, must decode as stubs
RESERVED_MSM = (1070,) + tuple(n for b in range(1078, 1138, 10) for n in (b, b + 1, b + 2)) + tuple(range(1138, 1230))


def unknown_frame(rng, nbytes=None) -> bytes:
    """a frame with an unassigned (1 in 8: reserved-MSM) message number and a seeded payload"""
    if nbytes is None:
        nbytes = rng.choice((2, 3, 4, 8, 20, 60, 255, 256, 257, 511, 512, 513, 1023, rng.randrange(2, 1024)))
    no = rng.choice(UNASSIGNED) if rng.randrange(8) else rng.choice(RESERVED_MSM)
    return wire.rtcm_frame(wire.rtcm_payload(no, rng.getrandbits(max(1, nbytes * 8 - 12)), nbytes))


def undefined_numbers():
    """message numbers without a payload definition in the pinned corpus'
    identity list (stubs): includes reserved numbers inside the MSM block"""
    if "undef" not in _cache:
        defined = {int(i[:4]) for i in synth_by_identity()}
        _cache["undef"] = tuple(n for n in range(4096) if n not in defined)
        _cache["igs_undef"] = tuple(s for s in range(256) if f"4076_{s:03d}" not in synth_by_identity())
    return _cache["undef"]


def stub_payload(rng):
    """payload of a message type that has no definition: any undefined number
    (with emphasis on the neighbourhood of defined families) or an
    unimplemented 4076 sub-type"""
    nbytes = rng.choice((2, 3, 4, 8, 20, 60, 200))
    if rng.random() < 0.35:
        undefined_numbers()
        sub = rng.choice(_cache["igs_undef"])
        nbytes = max(3, nbytes)
        body = rng.getrandbits(nbytes * 8 - 23)
        val = (((4076 << 3) | rng.randrange(8)) << 8 | sub) << (nbytes * 8 - 23) | body
        return val.to_bytes(nbytes, "big")
    und = undefined_numbers()
    near = [n for n in und if 1000 <= n <= 1320 or 4000 <= n <= 4095]
    no = rng.choice(near) if rng.random() < 0.7 else rng.choice(und)
    return wire.rtcm_payload(no, rng.getrandbits(max(1, nbytes * 8 - 12)), nbytes)
