"""Independent wire library (reference side).  Never imports pyrtcm.

CRC-24Q (table driven), RTCM3 / UBX / NMEA framers, HTTP/1.1 chunked encoder
and reference decoder (RFC 9112 section 7.1), damage operators.
"""

import zlib

# --------------------------------------------------------------------------
# CRC-24Q, table driven (pyrtcm uses a bitwise loop: different algorithm)
# --------------------------------------------------------------------------

_POLY = 0x1864CFB


def _mk_table():
    tbl = []
    for i in range(256):
        c = i << 16
        for _ in range(8):
            c <<= 1
            if c & 0x1000000:
                c ^= _POLY
        tbl.append(c & 0xFFFFFF)
    return tuple(tbl)


_TBL = _mk_table()


def crc24q(data: bytes) -> int:
    crc = 0
    tbl = _TBL
    for b in data:
        crc = ((crc << 8) & 0xFFFFFF) ^ tbl[(crc >> 16) ^ b]
    return crc


# --------------------------------------------------------------------------
# RTCM3
# --------------------------------------------------------------------------


def rtcm_frame(payload: bytes) -> bytes:
    n = len(payload)
    if n > 1023:
        raise ValueError("payload too long")
    body = bytes((0xD3, n >> 8, n & 0xFF)) + payload
    return body + crc24q(body).to_bytes(3, "big")


def rtcm_payload(msgno: int, body_bits: int = 0, nbytes: int = 2) -> bytes:
    """payload of nbytes (>=2) starting with a 12-bit message number, the
    rest taken from the integer body_bits (big endian, truncated)."""
    if nbytes < 2:
        raise ValueError
    total = nbytes * 8
    val = (msgno & 0xFFF) << (total - 12)
    val |= body_bits & ((1 << (total - 12)) - 1)
    return val.to_bytes(nbytes, "big")


def frame_wellformed(raw: bytes) -> str:
    """'' if raw is a well-formed RTCM3 frame, else the reason."""
    if len(raw) < 6:
        return "shorter than 6 bytes"
    if raw[0] != 0xD3:
        return "preamble"
    if raw[1] & 0xFC:
        return "reserved bits"
    n = ((raw[1] & 3) << 8) | raw[2]
    if len(raw) != 6 + n:
        return f"length field {n} vs enclosed {len(raw) - 6}"
    if crc24q(raw) != 0:
        return "crc"
    return ""


def frame_msgno(raw: bytes):
    """message number carried by a frame, None if the payload is < 2 bytes"""
    if len(raw) < 8:
        return None
    return (raw[3] << 4) | (raw[4] >> 4)


def frame_identity(raw: bytes):
    """expected identity string of a frame (None when it carries none)"""
    no = frame_msgno(raw)
    if no is None:
        return None
    if no == 4076:
        if len(raw) < 9:
            return None
        sub = ((raw[4] & 1) << 7) | (raw[5] >> 1)
        return f"4076_{sub:03d}"
    return str(no)


def deframe_all(data: bytes):
    """all well-formed frames found scanning left to right (greedy,
    non-overlapping).  Used only to cut the recorded logs into frames."""
    out = []
    i = 0
    n = len(data)
    while i + 6 <= n:
        if data[i] == 0xD3 and (data[i + 1] & 0xFC) == 0:
            ln = ((data[i + 1] & 3) << 8) | data[i + 2]
            end = i + 6 + ln
            if end <= n and crc24q(data[i:end]) == 0:
                out.append(data[i:end])
                i = end
                continue
        i += 1
    return out


# --------------------------------------------------------------------------
# UBX, NMEA
# --------------------------------------------------------------------------


def ubx_frame(cls: int, mid: int, payload: bytes) -> bytes:
    body = bytes((cls, mid)) + len(payload).to_bytes(2, "little") + payload
    a = b = 0
    for x in body:
        a = (a + x) & 0xFF
        b = (b + a) & 0xFF
    return b"\xb5\x62" + body + bytes((a, b))


# pinned: every second byte here is accepted by pyrtcm 1.1.5 as NMEA talker
# start; the list is mine, a mutated tree cannot move it.
NMEA_TALKERS = ("GP", "GN", "GL", "GA", "GB", "GQ", "P")


def nmea_sentence(talker: str, body: str) -> bytes:
    core = talker + body
    ck = 0
    for ch in core.encode("ascii"):
        ck ^= ch
    return b"$" + core.encode("ascii") + b"*%02X\r\n" % ck


# --------------------------------------------------------------------------
# HTTP/1.1 chunked transfer coding
# --------------------------------------------------------------------------

ENC_NONE, ENC_CHUNKED, ENC_GZIP, ENC_COMPRESS, ENC_DEFLATE = 0, 1, 2, 4, 8


def compress_chunk(data: bytes, enc: int, level: int = 6) -> bytes:
    if enc & ENC_GZIP:
        c = zlib.compressobj(level, zlib.DEFLATED, zlib.MAX_WBITS | 16)
    elif enc & ENC_COMPRESS:
        c = zlib.compressobj(level, zlib.DEFLATED, zlib.MAX_WBITS)
    elif enc & ENC_DEFLATE:
        c = zlib.compressobj(level, zlib.DEFLATED, -zlib.MAX_WBITS)
    else:
        return data
    return c.compress(data) + c.flush()


def chunk_encode(bodies, sizefmt=None, final=True):
    """bodies: list of non-empty byte strings (already compressed if needed).
    sizefmt: list of (case, leading_zeros) per chunk; case in 'l','u','m'.
    Returns (encoded, spans) where spans[i] = (size_line_start, data_start,
    data_end, chunk_end) offsets in encoded."""
    out = bytearray()
    spans = []
    for i, b in enumerate(bodies):
        if not b:
            raise ValueError("empty chunk only as terminator (an empty *decoded* body must arrive compressed, i.e. non-empty)")
        case, lz = sizefmt[i] if sizefmt else ("l", 0)
        h = "%x" % len(b)
        if case == "u":
            h = h.upper()
        elif case == "m":
            h = "".join(c.upper() if j % 2 else c for j, c in enumerate(h))
        h = "0" * lz + h
        s0 = len(out)
        out += h.encode("ascii") + b"\r\n"
        d0 = len(out)
        out += b
        d1 = len(out)
        out += b"\r\n"
        spans.append((s0, d0, d1, len(out)))
    if final:
        s0 = len(out)
        out += b"0\r\n\r\n"
        spans.append((s0, s0 + 3, s0 + 3, len(out)))
    return bytes(out), spans


def chunk_decode_reference(encoded: bytes, enc: int) -> bytes:
    """Reference decoder over the whole, unsegmented stream.  RFC 9112 7.1
    without extensions/trailers.  Incomplete trailing chunk yields nothing."""
    out = bytearray()
    i = 0
    n = len(encoded)
    while True:
        j = encoded.find(b"\r\n", i)
        if j < 0:
            break
        size = int(encoded[i:j].decode("ascii"), 16)
        i = j + 2
        if size == 0:
            break
        if i + size + 2 > n:
            break
        data = encoded[i : i + size]
        if encoded[i + size : i + size + 2] != b"\r\n":
            raise ValueError("malformed chunk terminator")
        i += size + 2
        if enc & ENC_GZIP:
            data = zlib.decompress(data, wbits=zlib.MAX_WBITS | 16)
        elif enc & ENC_COMPRESS:
            data = zlib.decompress(data, wbits=zlib.MAX_WBITS)
        elif enc & ENC_DEFLATE:
            data = zlib.decompress(data, wbits=-zlib.MAX_WBITS)
        out += data
    return bytes(out)


# --------------------------------------------------------------------------
# damage operators
# --------------------------------------------------------------------------


def flip_bits(data: bytes, bit_offsets) -> bytes:
    b = bytearray(data)
    for o in bit_offsets:
        b[o >> 3] ^= 0x80 >> (o & 7)
    return bytes(b)


def burst(data: bytes, start_bit: int, pattern: int, width: int) -> bytes:
    """xor a 'width'-bit pattern (msb and lsb set => true burst of that
    width) starting at start_bit"""
    b = bytearray(data)
    for k in range(width):
        if (pattern >> (width - 1 - k)) & 1:
            o = start_bit + k
            b[o >> 3] ^= 0x80 >> (o & 7)
    return bytes(b)


SYNC = (0xD3, 0xB5, 0x24)


def inert_noise(rng, n: int) -> bytes:
    out = bytearray()
    while len(out) < n:
        x = rng.randrange(256)
        if x not in SYNC:
            out.append(x)
    return bytes(out)
