"""Transport doubles and decision sources.

Every byte pyrtcm sees comes through a Link.  What each transport call returns
is decided by a *decider*:

  RngDecider    - adversarial model: seeded PRNG + aimed faults (wire offsets)
  TimedDecider  - timed model: peer write times, latency, MSS, timeouts on a
                  virtual clock (discrete events; nothing ever sleeps)
  ScriptDecider - replay of recorded decisions; draws nothing

All three emit the same JSON-able decisions, and every decision taken is
recorded in link.taken -- that list *is* the schedule of a run.

  ["d", k]   deliver k bytes (clamped to what is legal for the call)
  ["t"]      timeout        (socket: raise TimeoutError; serial: empty read)
  ["e", nm]  OS error nm    (socket only)
  ["c"]      peer closes now, undelivered bytes are never received
"""

import io
import socket

ERRORS = {
    "ConnectionResetError": ConnectionResetError,
    "ConnectionAbortedError": ConnectionAbortedError,
    "BrokenPipeError": BrokenPipeError,
    "InterruptedError": InterruptedError,
    "BlockingIOError": BlockingIOError,
    "OSError": OSError,
    "socket.timeout": socket.timeout,  # alias of TimeoutError on 3.10+
}
ERRORS["TimeoutError"] = TimeoutError
# Shapes of the injected exception object ("Name/shape"): real sockets raise OS errors with an
# errno (default shape: errno 104 + text), with a message only (errno None: socket.timeout("timed
# out"), OSError("cannot read from timed out object"), ssl errors) or, from wrappers, bare.
ERROR_NAMES = tuple(sorted(n for n in ERRORS if n != "TimeoutError")) + (
    "OSError/noerrno",
    "ConnectionResetError/noargs",
    "BlockingIOError/noerrno",
    "TimeoutError/errno",
    "OSError/bigerrno",
)


def make_error(spec):
    name, _, shape = spec.partition("/")
    cls = ERRORS[name]
    if shape == "noerrno":
        return cls(name + " without errno")
    if shape == "noargs":
        return cls()
    if shape == "errno":
        return cls(110, "Connection timed out")
    if shape == "bigerrno":
        return cls(10054, "unknown error number")  # e.g. a WinSock code: not in errno.errorcode
    return cls(104, name)


class SimBudgetExceeded(BaseException):
    """Step budget exhausted: BaseException so that no `except Exception`
    in the code under test can swallow it."""


# ---------------------------------------------------------------------------
# deciders
# ---------------------------------------------------------------------------


class ScriptDecider:
    """Replays a recorded decision list; when exhausted: deliver in full."""

    def __init__(self, script):
        self.script = script
        self.i = 0
        self.now = 0.0

    def next(self, op, want, pos, remaining):
        i = self.i
        if i < len(self.script):
            self.i = i + 1
            return self.script[i]
        return ("d", want)


class RngDecider:
    """Adversarial model.  cfg keys (all optional):
    seg      : 'full' | 'byte' | 'small' | 'random' | 'mixed'
    p_fault  : probability of a background fault per call
    faults   : list of fault decisions to choose from for background faults
    aims     : sorted list of [offset, decision]: delivery is cut so that a
               call boundary falls exactly at offset, then the decision is
               injected once (decision ["d", 0] == just cut there)
    """

    def __init__(self, rng, cfg):
        self.rng = rng
        self.seg = cfg.get("seg", "full")
        self.p_fault = cfg.get("p_fault", 0.0)
        self.faults = [tuple(f) for f in cfg.get("faults", ())]
        self.aims = [(int(o), tuple(d)) for o, d in cfg.get("aims", ())]
        self.ai = 0
        self.now = 0.0

    def next(self, op, want, pos, remaining):
        rng = self.rng
        aims = self.aims
        ai = self.ai
        while ai < len(aims) and aims[ai][0] < pos:
            ai += 1  # aim lies behind us (jumped over by a previous fault)
        while ai < len(aims) and aims[ai][0] == pos:
            d = aims[ai][1]
            ai += 1
            if d[0] != "d":  # a fault aimed at this very position (a "d" aim is only a cut)
                self.ai = ai
                return d
        self.ai = ai
        if self.p_fault and self.faults and rng.random() < self.p_fault:
            return self.faults[rng.randrange(len(self.faults))]
        m = want if want < remaining else remaining
        if m <= 1:
            k = m
        else:
            seg = self.seg
            if seg == "mixed":
                seg = ("full", "byte", "small", "random")[rng.randrange(4)]
            if seg == "full":
                k = m
            elif seg == "byte":
                k = 1
            elif seg == "small":
                k = rng.randint(1, 4 if m > 4 else m)
            else:
                k = rng.randint(1, m)
        if ai < len(aims) and pos + k > aims[ai][0]:
            k = aims[ai][0] - pos
        return ("d", k)


class TimedDecider:
    """Timed model on a virtual clock.

    arrivals : list of (time, end_offset) -- bytes [..end_offset) are in the
               client's receive queue from `time` on (monotone in both)
    close_at : virtual time at which the peer's FIN arrives (after all data)
    timeout  : socket/serial timeout in virtual seconds (None = blocking)
    think    : client think time added before every call
    """

    def __init__(self, arrivals, close_at, timeout, think, wait_full=False):
        self.arr = arrivals
        self.ai = 0
        self.close_at = close_at
        self.timeout = timeout
        self.think = think
        self.wait_full = wait_full  # serial semantics: block until `want` bytes or the timeout
        self.now = 0.0
        self.avail_end = 0

    def next(self, op, want, pos, remaining):
        self.now += self.think
        arr = self.arr
        ai = self.ai
        now = self.now
        while ai < len(arr) and arr[ai][0] <= now:
            self.avail_end = arr[ai][1]
            ai += 1
        deadline = None if self.timeout is None else now + self.timeout
        need = pos + (want if self.wait_full and want > 0 else 1)
        while self.avail_end < need:
            # not enough queued: block until next arrival, FIN, or timeout
            if ai >= len(arr):
                if self.avail_end <= pos:
                    self.now = max(now, self.close_at) if deadline is None else min(max(now, self.close_at), deadline)
                break
            nxt = arr[ai][0]
            if deadline is not None and nxt > deadline:
                self.now = deadline
                self.ai = ai
                if self.avail_end <= pos:
                    return ("t",)
                break
            self.now = now = nxt
            while ai < len(arr) and arr[ai][0] <= now:
                self.avail_end = arr[ai][1]
                ai += 1
        self.ai = ai
        avail = self.avail_end - pos
        if avail <= 0:
            return ("d", 0)  # FIN reached: link reports EOF
        return ("d", avail if avail < want or want <= 0 else want)


# ---------------------------------------------------------------------------
# the link: the only source of bytes
# ---------------------------------------------------------------------------


class Link:
    def __init__(self, wire: bytes, decider, budget: int):
        self.wire = wire
        self.end = len(wire)
        self.pos = 0
        self.decider = decider
        self.budget = budget
        self.budget_per_fault = 0
        self.calls = 0
        self.taken = []  # decisions actually taken (the schedule)
        self.log = []  # (op, want, result kind, n)
        self.fired = {}
        self.fault_in_call = 0  # counter of faults/EOF signalled so far
        self.eof_seen = False

    def handed(self) -> bytes:
        return self.wire[: self.pos]

    def _step(self, op, want):
        self.calls += 1
        if self.calls > self.budget:
            raise SimBudgetExceeded(f"{self.calls} transport calls")
        remaining = self.end - self.pos
        if remaining <= 0:
            self.eof_seen = True
            self.fault_in_call += 1
            self.log.append((op, want, "eof", 0))
            return ("eof",)
        d = self.decider.next(op, want, self.pos, remaining)
        self.taken.append(list(d))
        return d

    def _fire(self, kind):
        self.fired[kind] = self.fired.get(kind, 0) + 1
        self.fault_in_call += 1
        self.budget += self.budget_per_fault

    def take(self, k):
        p = self.pos
        self.pos = p + k
        return self.wire[p : p + k]


class SimSocket(socket.socket):
    """A socket.socket subclass that never opens an OS socket."""

    def __init__(self, link):  # pylint: disable=super-init-not-called
        self._link = link
        self.sent = []
        self.closed_by_app = False

    def recv(self, bufsize, flags=0):
        link = self._link
        if self.closed_by_app:
            link.log.append(("recv", bufsize, "closed-by-app", 0))
            raise OSError(9, "Bad file descriptor")
        if bufsize <= 0:
            # like a real socket: asking for nothing yields nothing (and costs a step)
            link.calls += 1
            if link.calls > link.budget:
                raise SimBudgetExceeded(f"{link.calls} transport calls")
            link.log.append(("recv", bufsize, "zero", 0))
            link.fault_in_call += 1  # an empty result the caller cannot tell from "closed"
            return b""
        d = link._step("recv", bufsize)
        kind = d[0]
        if kind == "eof":
            return b""
        if kind == "d":
            remaining = link.end - link.pos
            k = d[1]
            m = bufsize if bufsize < remaining else remaining
            if k > m:
                k = m
            if k < 1:
                k = 1
            link.log.append(("recv", bufsize, "d", k))
            return link.take(k)
        if kind == "t":
            link._fire("recv_timeout")
            link.log.append(("recv", bufsize, "t", 0))
            raise TimeoutError("timed out")
        if kind == "e":
            link._fire("recv_oserror:" + d[1])
            link.log.append(("recv", bufsize, "e:" + d[1], 0))
            raise make_error(d[1])
        if kind == "c":
            link._fire("peer_close")
            link.end = link.pos
            link.eof_seen = True
            link.log.append(("recv", bufsize, "c", 0))
            return b""
        raise AssertionError(d)

    def send(self, data, flags=0):
        self.sent.append(bytes(data))
        return len(data)

    def close(self):
        # like a real socket: once the application (or the library on its behalf) closes it, recv fails
        self.closed_by_app = True

    def fileno(self):
        return -1

    def __del__(self):
        pass

    def __repr__(self):
        return "<SimSocket>"


class SimSerial:
    """pyserial-like port: read(n) returns what arrived before the timeout
    (possibly fewer than n bytes, possibly none); readline() stops at LF or
    at the timeout."""

    def __init__(self, link):
        self._link = link

    def read(self, n=1):
        link = self._link
        if n <= 0:
            link.log.append(("read", n, "d", 0))
            return b""
        d = link._step("read", n)
        kind = d[0]
        if kind == "eof":
            return b""
        if kind == "d":
            remaining = link.end - link.pos
            m = n if n < remaining else remaining
            k = d[1]
            if k > m:
                k = m
            if k < 1:
                k = 1
            if k < n and remaining >= n:
                link._fire("short_read")
            link.log.append(("read", n, "d", k))
            return link.take(k)
        if kind == "c":
            link._fire("peer_close")
            link.end = link.pos
            link.eof_seen = True
            link.log.append(("read", n, "c", 0))
            return b""
        # timeouts and (meaningless here) errors: empty read
        link._fire("empty_read")
        link.log.append(("read", n, "t", 0))
        return b""

    def readline(self):
        link = self._link
        j0 = link.wire.find(b"\n", link.pos, link.end)
        d = link._step("readline", (j0 + 1 - link.pos) if j0 >= 0 else max(1, link.end - link.pos))
        kind = d[0]
        if kind == "eof":
            return b""
        if kind == "c":
            link._fire("peer_close")
            link.end = link.pos
            link.eof_seen = True
            link.log.append(("readline", -1, "c", 0))
            return b""
        if kind != "d":
            link._fire("empty_read")
            link.log.append(("readline", -1, "t", 0))
            return b""
        p = link.pos
        j = link.wire.find(b"\n", p, link.end)
        full = (j + 1 - p) if j >= 0 else (link.end - p)
        k = d[1]
        if k < 0 or k >= full:
            k = full
        else:
            if k < 1:
                k = 1
            link._fire("short_line")
        link.log.append(("readline", -1, "d", k))
        return link.take(k)


class SimRaw(io.RawIOBase):
    """Raw stream under a real io.BufferedReader: readinto delivers partial
    chunks; the stdlib buffer re-assembles them."""

    def __init__(self, link):
        super().__init__()
        self._link = link

    def readable(self):
        return True

    def readinto(self, b):
        link = self._link
        n = len(b)
        d = link._step("readinto", n)
        if d[0] == "eof":
            return 0
        remaining = link.end - link.pos
        m = n if n < remaining else remaining
        k = d[1] if d[0] == "d" else m
        if k > m:
            k = m
        if k < 1:
            k = 1
        link.log.append(("readinto", n, "d", k))
        b[:k] = link.take(k)
        return k


class CountingBytesIO(io.BytesIO):
    """BytesIO baseline; only counts calls against the budget."""

    def __init__(self, data, budget):
        super().__init__(data)
        self._budget = budget
        self.calls = 0

    def read(self, n=-1):
        self.calls += 1
        if self.calls > self._budget:
            raise SimBudgetExceeded(f"{self.calls} stream calls")
        return super().read(n)

    def readline(self, n=-1):
        self.calls += 1
        if self.calls > self._budget:
            raise SimBudgetExceeded(f"{self.calls} stream calls")
        return super().readline(n)


def timed_arrivals(rng, item_lengths, cfg):
    """Materialise the timed model's arrival list for a peer that writes the
    items one by one.  Returns (arrivals, close_at)."""
    gap = cfg["gap"]
    mss = cfg["mss"]
    lat = cfg["latency"]
    jit = cfg["jitter"]
    byte_time = cfg.get("byte_time", 0.0)  # serial-like pacing: seconds per byte on the line
    t = 0.0
    last = 0.0
    off = 0
    arr = []
    for ln in item_lengths:
        t += rng.expovariate(1.0 / gap) if gap > 0 else 0.0
        sent = 0
        while sent < ln:
            k = min(mss, ln - sent)
            sent += k
            off += k
            t += k * byte_time
            at = t + lat + (rng.random() * jit if jit else 0.0)
            if at < last:
                at = last  # TCP: in order
            last = at
            if arr and arr[-1][0] == at:
                arr[-1] = (at, off)
            else:
                arr.append((at, off))
    close_at = last + cfg.get("linger", 0.0)
    return arr, close_at
