"""Seeded search driver: deals runs to forked workers, aggregates coverage,
classifies + minimises + replays violations, honours known_findings.json,
writes the evidence file.

Exit codes: 0 held on everything explored; 1 violation (with VIOLATION line);
2 harness error (never confused with either).
"""

import array
import faulthandler
import hashlib
import importlib
import json
import multiprocessing
import os
import shutil
import sys
import tempfile
import time
import traceback
from concurrent.futures import ProcessPoolExecutor

VERIF = os.path.dirname(os.path.dirname(os.path.abspath(__file__)))
REPO = os.environ.get("VERIF_REPO", "/repo")

REAL_COMPONENTS = [
    "pyrtcm.rtcmreader.RTCMReader",
    "pyrtcm.socketwrapper.SocketWrapper",
    "pyrtcm.rtcmmessage.RTCMMessage",
    "pyrtcm.rtcmhelpers",
    "pyrtcm.rtcmtypes_* / rtcmtables (definition tables)",
    "stdlib io.BytesIO, io.BufferedReader, zlib, threading",
]
STUB_COMPONENTS = [
    "OS socket (sim.transports.SimSocket, a socket.socket subclass with no fd)",
    "serial port (SimSerial)",
    "raw file under BufferedReader (SimRaw)",
    "remote peer / caster / receiver (seeded peer script)",
    "physical line (damage operators, segmentation, latency model)",
    "clock (virtual, discrete-event; pyrtcm itself never reads a clock)",
    "thread scheduler's choice of who runs (sim.sched, C13)",
]


class HarnessError(Exception):
    pass


# wall-clock limit for ONE scenario execution before it is declared hung (see _Prop.execute)
HANG_S = float(os.environ.get("VERIF_HANG_S", "60"))


# ---------------------------------------------------------------------------
# tree under test
# ---------------------------------------------------------------------------

_pyc_dir = None


def use_tree():
    """Import pyrtcm from $VERIF_REPO/src, always compiled from the current
    sources (no stale .pyc can be picked up)."""
    global _pyc_dir
    src = os.path.join(REPO, "src")
    if not os.path.isdir(os.path.join(src, "pyrtcm")):
        raise HarnessError(f"no pyrtcm under {src}")
    if _pyc_dir is None:
        _pyc_dir = tempfile.mkdtemp(prefix="verif-pyc-")
        sys.pycache_prefix = _pyc_dir
    sys.dont_write_bytecode = True
    if sys.path[0] != src:
        sys.path.insert(0, src)
    for name in list(sys.modules):
        if name == "pyrtcm" or name.startswith("pyrtcm."):
            raise HarnessError("pyrtcm imported before use_tree()")
    import logging

    from . import sched

    sched.install_lock_seam()  # module-level locks of the tree under test go through the scheduler's lock seam
    try:
        import pyrtcm  # noqa: F401
    finally:
        sched.remove_lock_seam()

    # pyrtcm logs handled errors; keep them off stderr (behaviour unchanged)
    lg = logging.getLogger("pyrtcm")
    lg.addHandler(logging.NullHandler())
    lg.propagate = False

    got = os.path.dirname(os.path.abspath(pyrtcm.__file__))
    if os.path.realpath(got) != os.path.realpath(os.path.join(src, "pyrtcm")):
        raise HarnessError(f"pyrtcm imported from {got}, wanted {src}")


def cleanup_tree():
    global _pyc_dir
    if _pyc_dir and os.path.isdir(_pyc_dir):
        shutil.rmtree(_pyc_dir, ignore_errors=True)
    _pyc_dir = None


def tree_digest():
    h = hashlib.sha256()
    d = os.path.join(REPO, "src", "pyrtcm")
    for name in sorted(os.listdir(d)):
        if name.endswith(".py"):
            h.update(name.encode())
            with open(os.path.join(d, name), "rb") as f:
                h.update(f.read())
    return h.hexdigest()


# ---------------------------------------------------------------------------
# helpers for property modules
# ---------------------------------------------------------------------------


def digest_of(obj) -> str:
    return hashlib.blake2b(repr(obj).encode("utf-8", "backslashreplace"), digest_size=16).hexdigest()


def d64(obj) -> int:
    return int.from_bytes(
        hashlib.blake2b(repr(obj).encode("utf-8", "backslashreplace"), digest_size=8).digest(), "big"
    )


def violation(prop, klass, detail, signature=None):
    return {
        "class": f"{prop}:{klass}",
        "detail": detail,
        "signature": signature or f"{prop}:{klass}",
    }


def in_child(fn, *args):
    """Run fn(*args) in a forked child and return its result.  The calling
    process never executes code of the tree under test itself, so every child
    starts from a pristine import of pyrtcm: state that the library leaks from
    one reader / wrapper / message object to the next cannot make a run depend
    on which worker happened to execute what before."""
    import pickle
    import struct

    r, w = os.pipe()
    pid = os.fork()
    if pid == 0:
        code = 1
        try:
            os.close(r)
            try:
                data = pickle.dumps(("ok", fn(*args)))
            except HarnessError as e:
                data = pickle.dumps(("harness-error", str(e)))
            except BaseException as e:  # pylint: disable=broad-except
                data = pickle.dumps(("child-error", "".join(traceback.format_exception(type(e), e, e.__traceback__))[-2000:]))
            os.write(w, struct.pack("<Q", len(data)))
            off = 0
            while off < len(data):
                off += os.write(w, data[off : off + 65536])
            code = 0
        finally:
            os._exit(code)
    os.close(w)
    # read exactly the announced length, not "until EOF": a grandchild that hangs (a deadlock in the
    # tree under test) inherits the write end and would keep the pipe open long after the child is gone
    chunks = []
    got = 0
    want = None
    while want is None or got < want:
        chunk = os.read(r, 1 << 16)
        if not chunk:
            break
        chunks.append(chunk)
        got += len(chunk)
        if want is None and got >= 8:
            want = 8 + struct.unpack("<Q", b"".join(chunks)[:8])[0]
    os.close(r)
    _, status = os.waitpid(pid, 0)
    buf = b"".join(chunks)
    if len(buf) < 8 or len(buf) - 8 != struct.unpack("<Q", buf[:8])[0]:
        raise HarnessError(f"child process died without a result (wait status {status}, {len(buf)} bytes received)")
    tag, res = pickle.loads(buf[8:])
    if tag == "harness-error":
        raise HarnessError(res)
    if tag == "child-error":
        raise HarnessError("child process failed: " + res)
    return res


def _exec_seq(mod, scns):
    """execute scenarios in order (in this process); outcome of each"""
    outs = []
    for scn in scns:
        out = mod.execute(scn)
        outs.append({"digest": out["digest"], "violation": out["violation"], "explicit": out.get("explicit")})
    return outs


def exec_isolated(mod, scns):
    """execute a history of scenarios in one pristine child"""
    return in_child(_exec_seq, mod, scns)


class _Prop:
    """property module whose execute() always runs on a fresh thread stack, so
    that stack-depth dependent behaviour of the code under test (RecursionError)
    does not depend on where in the harness the run was started from"""

    def __init__(self, mod):
        self._mod = mod

    def __getattr__(self, name):
        return getattr(self._mod, name)

    def execute(self, scn):
        import threading

        box = {}

        def body():
            try:
                box["out"] = self._mod.execute(scn)
            except BaseException as e:  # pylint: disable=broad-except
                box["err"] = e

        t = threading.Thread(target=body, name="sim-run", daemon=True)
        t.start()
        hang_s = HANG_S
        t.join(hang_s)
        if t.is_alive():
            # The code under test blocks without making a single transport call (every transport
            # call counts against the step budget, so a busy loop over the stream cannot end here):
            # a deadlock / endless loop inside the library.  Typical runs take milliseconds; the
            # limit is four orders of magnitude above that.  The stuck daemon thread is abandoned.
            prop = self._mod.PROP
            v = violation(prop, "hang", f"no result after {hang_s} s of wall-clock although no transport call is pending: the library blocks or loops internally")
            explicit = {k: val for k, val in scn.items() if k != "sched"} if "sched" not in scn else None
            return {"digest": digest_of(("hang", prop)), "violation": v, "explicit": explicit or scn, "stats": {}, "hung": True}
        if "err" in box:
            raise box["err"]
        return box["out"]


def load_prop(prop):
    return _Prop(importlib.import_module(f"sim.props.{prop.lower()}"))


# ---------------------------------------------------------------------------
# known findings
# ---------------------------------------------------------------------------


def load_known(prop):
    path = os.environ.get("VERIF_KNOWN_FINDINGS") or os.path.join(VERIF, "known_findings.json")
    if not os.path.exists(path):
        return {}
    with open(path) as f:
        data = json.load(f)
    out = {}
    for e in data.get("findings", []):
        if e.get("property") == prop and e.get("status") == "open":
            out[e["signature"]] = e
    return out


# ---------------------------------------------------------------------------
# worker side
# ---------------------------------------------------------------------------

_WORKER = {}


def _worker_init(prop, watchdog):
    _WORKER["mod"] = load_prop(prop)
    _WORKER["watchdog"] = watchdog


def _run_block(args):
    """a block of runs = one history, executed in a child forked from the
    (pristine) pool worker: the block is a pure function of (seed, start, count)"""
    return in_child(_run_block_here, args)


def _run_block_here(args):
    prop, master, tier, start, count = args
    mod = _WORKER["mod"]
    faulthandler.dump_traceback_later(_WORKER["watchdog"], exit=True)
    try:
        agg = {
            "runs": 0,
            "nontrivial": array.array("Q"),
            "counters": {},
            "sets": {},
            "violations": [],
            "samples": [],
            "sim_seconds": 0.0,
            "log_digest": hashlib.blake2b(digest_size=16),
        }
        for index in range(start, start + count):
            scn = mod.generate(master, index, tier)
            out = mod.execute(scn)
            agg["runs"] += 1
            agg["log_digest"].update(out["digest"].encode())
            st = out.get("stats", {})
            if st.get("nontrivial"):
                agg["nontrivial"].append(st["scn_d64"])
            for k, v in st.get("counters", {}).items():
                agg["counters"][k] = agg["counters"].get(k, 0) + v
            for k, v in st.get("sets", {}).items():
                agg["sets"].setdefault(k, set()).update(v)
            agg["sim_seconds"] += st.get("sim_seconds", 0.0)
            if out.get("hung"):
                agg["hung_at"] = index
            if out["violation"] is not None:
                if len(agg["violations"]) < 50:
                    agg["violations"].append((index, out["violation"]))
                agg["counters"]["violating_runs"] = agg["counters"].get("violating_runs", 0) + 1
                vk = "viol:" + out["violation"]["class"]
                agg["counters"][vk] = agg["counters"].get(vk, 0) + 1
            if not out.get("hung") and (index < 3 or (index % 9973 == 0 and len(agg["samples"]) < 2)):
                agg["samples"].append(mod.sample_view(scn, out))
            if out.get("hung"):
                break  # the rest of this block is not run
        agg["log_digest"] = agg["log_digest"].hexdigest()
        agg["nontrivial"] = agg["nontrivial"].tobytes()
        return start, agg
    finally:
        faulthandler.cancel_dump_traceback_later()


def _exec_one(args):
    """execute one explicit scenario in a (forked) worker"""
    prop, scn = args
    mod = _WORKER.get("mod") or load_prop(prop)
    faulthandler.dump_traceback_later(_WORKER.get("watchdog", 120), exit=True)
    try:
        out = mod.execute(scn)
        return {"digest": out["digest"], "violation": out["violation"], "explicit": out.get("explicit")}
    finally:
        faulthandler.cancel_dump_traceback_later()


def _trace_sample(args):
    """reach probe: which source lines of the reader / socket wrapper does a
    sample of runs execute?  (runs in a forked worker, under sys.settrace)"""
    prop, master, tier, n = args
    mod = _WORKER.get("mod") or load_prop(prop)
    files = ("rtcmreader.py", "socketwrapper.py")
    base = os.path.join(os.path.realpath(os.path.join(REPO, "src", "pyrtcm")), "")
    hit = set()

    def local(frame, event, arg):
        if event == "line":
            hit.add((frame.f_code.co_filename, frame.f_lineno))
        return local

    def glob(frame, event, arg):
        fn = frame.f_code.co_filename
        if fn.startswith(base) and fn.endswith(files):
            return local
        return None

    import threading

    # execute() runs every scenario on a fresh thread (fresh-stack rule), and
    # sys.settrace covers the calling thread only
    threading.settrace(glob)
    sys.settrace(glob)
    try:
        for index in range(n):
            mod.execute(mod.generate(master, index, tier))
    finally:
        sys.settrace(None)
        threading.settrace(None)
    out = {}
    for f in files:
        path = os.path.join(base, f)
        with open(path, "rb") as fh:
            code = compile(fh.read(), path, "exec")
        lines = set()
        stack = [code]
        while stack:
            c = stack.pop()
            first = c.co_firstlineno
            for _s, _e, ln in c.co_lines():
                if ln is not None and (c.co_flags & 0x1) and ln != first:  # CO_OPTIMIZED: function bodies only
                    lines.add(ln)
            for k in c.co_consts:
                if hasattr(k, "co_lines"):
                    stack.append(k)
        got = {ln for (fn, ln) in hit if fn == path}
        out[f] = {"executable_lines_in_functions": len(lines), "reached": len(lines & got), "not_reached": sorted(lines - got)}
    return out


# ---------------------------------------------------------------------------
# minimisation (delta debugging, class preserving)
# ---------------------------------------------------------------------------


def _same_class(out, klass):
    return out["violation"] is not None and out["violation"]["class"] == klass


def minimise_history(mod, history, scn, klass, budget_s=120.0):
    """ddmin over the scenarios executed *before* scn in the same process"""
    t0 = time.time()
    execs = 0

    def fails(hist):
        nonlocal execs
        if time.time() - t0 > budget_s:
            return False
        execs += 1
        try:
            outs = exec_isolated(mod, hist + [scn])
        except HarnessError:
            return False
        return _same_class(outs[-1], klass)

    lst = list(history)
    n = 2
    while len(lst) >= 1:
        chunk = max(1, len(lst) // n)
        removed = False
        i = 0
        while i < len(lst):
            cand = lst[:i] + lst[i + chunk :]
            if fails(cand):
                lst = cand
                removed = True
            else:
                i += chunk
        if chunk == 1:
            break
        n = max(2, n - 1) if removed else min(len(lst), n * 2)
        if time.time() - t0 > budget_s:
            break
    return lst, execs


def minimise(mod, scn, klass, budget_s=90.0, max_execs=4000, history=(), after=()):
    """scn: explicit scenario; the sequence history + [scn] + after, executed
    in one pristine process, ends in a violation of class klass.  Returns a
    smaller scn for which that still holds.  (after == () : scn itself is the
    failing run; otherwise scn is one of the earlier runs the failure needs.)
    Every candidate runs in a pristine child."""
    t0 = time.time()
    execs = [0]
    history = list(history)
    after = list(after)

    def fails(cand):
        if time.time() - t0 > budget_s or execs[0] >= max_execs:
            return False
        execs[0] += 1
        try:
            out = exec_isolated(mod, history + [cand] + after)[-1]
        except HarnessError:  # a candidate that breaks the harness is not smaller
            return False
        return _same_class(out, klass)

    best = scn
    changed = True
    rounds = 0
    while changed and rounds < 6:
        changed = False
        rounds += 1
        # 1. ddmin over every list field the property declares
        for field in mod.SHRINK_LISTS:
            lst = best.get(field)
            if not lst:
                continue
            n = 2
            while len(lst) >= 1:
                chunk = max(1, len(lst) // n)
                removed = False
                i = 0
                while i < len(lst):
                    cand_list = lst[:i] + lst[i + chunk :]
                    cand = dict(best)
                    cand[field] = cand_list
                    if fails(cand):
                        best = cand
                        lst = cand_list
                        removed = True
                        changed = True
                    else:
                        i += chunk
                if chunk == 1:
                    break
                if not removed:
                    n = min(len(lst), n * 2) if len(lst) > 1 else 1
                    if chunk == 1:
                        break
                else:
                    n = max(2, n - 1)
                if time.time() - t0 > budget_s:
                    break
        # 2. property specific simplifications
        progress = True
        while progress and time.time() - t0 <= budget_s:
            progress = False
            for cand in mod.simplify(best):
                if fails(cand):
                    best = cand
                    progress = True
                    changed = True
                    break
    return best, execs[0]


# ---------------------------------------------------------------------------
# main entry
# ---------------------------------------------------------------------------


def _distinct(buckets):
    total = 0
    for b in buckets:
        total += len(set(b))
    return total


def write_evidence(prop, payload):
    os.makedirs(os.path.join(VERIF, "evidence"), exist_ok=True)
    path = os.path.join(VERIF, "evidence", f"{prop}.json")
    tmp = path + ".tmp"
    with open(tmp, "w") as f:
        json.dump(payload, f, indent=1, sort_keys=True)
        f.write("\n")
    os.replace(tmp, path)
    if payload.get("tier") == "thorough":
        # keep the deep run's evidence next to the file that every quick run rewrites
        tdir = os.path.join(VERIF, "evidence", "thorough")
        os.makedirs(tdir, exist_ok=True)
        shutil.copyfile(path, os.path.join(tdir, f"{prop}.json"))


def run_check(prop, tier, master, workers, runs_override=None, write=True):
    t0 = time.time()
    mod = load_prop(prop)
    nruns = runs_override if runs_override is not None else mod.RUNS[tier]
    block = mod.BLOCK.get(tier, 100) if isinstance(mod.BLOCK, dict) else mod.BLOCK
    watchdog = getattr(mod, "WATCHDOG_S", 2400)
    cap = getattr(mod, "WALL_CAP_S", {"quick": 900, "thorough": 4 * 3600})[tier]
    known = load_known(prop)

    tasks = []
    s = 0
    while s < nruns:
        c = min(block, nruns - s)
        tasks.append((prop, master, tier, s, c))
        s += c

    ctx = multiprocessing.get_context("fork")
    results = {}
    hung_stop = False
    with ProcessPoolExecutor(max_workers=workers, mp_context=ctx, initializer=_worker_init, initargs=(prop, watchdog)) as pool:
        futs = [pool.submit(_run_block, t) for t in tasks]
        try:
            for f in futs:
                remaining = cap - (time.time() - t0)
                if remaining <= 0:
                    raise HarnessError("incomplete: wall-clock cap hit")
                start, agg = f.result(timeout=remaining)
                results[start] = agg
                if agg.get("hung_at") is not None:
                    # the library hangs: every further occurrence would cost the full hang limit.
                    # This is the lowest-numbered block with a hang (blocks are collected in order):
                    # report it, drop the rest of the batch.
                    hung_stop = True
                    for g in futs:
                        g.cancel()
                    for p in list(getattr(pool, "_processes", {}).values()):
                        try:
                            p.kill()
                        except Exception:
                            pass
                    break
        except Exception as e:
            for f in futs:
                f.cancel()
            for p in list(getattr(pool, "_processes", {}).values()):
                try:
                    p.kill()
                except Exception:
                    pass
            if isinstance(e, HarnessError):
                raise
            raise HarnessError(f"worker failure: {type(e).__name__}: {e}") from e

    lines_reached = None
    nsample = getattr(mod, "TRACE_SAMPLE", 200)
    if nsample and not hung_stop:
        with ProcessPoolExecutor(max_workers=1, mp_context=ctx, initializer=_worker_init, initargs=(prop, watchdog)) as pool:
            try:
                lines_reached = pool.submit(_trace_sample, (prop, master, tier, min(nsample, nruns))).result(timeout=1800)
            except Exception as e:
                raise HarnessError(f"trace sample failed: {type(e).__name__}: {e}") from e

    # aggregate in run order -> independent of worker count
    counters = {}
    sets = {}
    samples = []
    sim_seconds = 0.0
    buckets = [array.array("Q") for _ in range(256)]
    all_viol = []
    runs = 0
    logd = hashlib.blake2b(digest_size=16)
    for start in sorted(results):
        agg = results[start]
        runs += agg["runs"]
        logd.update(agg["log_digest"].encode())
        for k, v in agg["counters"].items():
            counters[k] = counters.get(k, 0) + v
        for k, v in agg["sets"].items():
            sets.setdefault(k, set()).update(v)
        sim_seconds += agg["sim_seconds"]
        a = array.array("Q")
        a.frombytes(agg["nontrivial"])
        for x in a:
            buckets[x >> 56].append(x)
        all_viol.extend(agg["violations"])
        if len(samples) < 4:
            samples.extend(agg["samples"][: 4 - len(samples)])
    distinct = _distinct(buckets)

    # extra systematic part (enumerations), if the property has one
    extra = {}
    if hasattr(mod, "systematic") and not hung_stop:
        ex = in_child(mod.systematic, tier, master, workers)
        extra = ex.get("coverage", {})
        all_viol.extend(ex.get("violations", []))

    known_hits = {}
    new_viol = []
    for index, v in all_viol:
        if v["signature"] in known:
            known_hits[v["signature"]] = known_hits.get(v["signature"], 0) + 1
        else:
            new_viol.append((index, v))

    wall = time.time() - t0
    coverage = {
        "evaluations": runs,
        "distinct_nontrivial": distinct,
        "rule": mod.RULE,
        "samples": samples,
        "runs_per_hour": int(runs / wall * 3600) if wall > 0 else 0,
        "simulated_seconds": round(sim_seconds, 3),
        "faults_fired": {k[6:]: v for k, v in sorted(counters.items()) if k.startswith("fault:")},
        "probes": {k: v for k, v in sorted(counters.items()) if not k.startswith("fault:")},
        "reach_sets": {k: len(v) for k, v in sorted(sets.items())},
        "event_log_digest": logd.hexdigest(),
        "real_components": REAL_COMPONENTS,
        "stub_components": STUB_COMPONENTS,
        "tree_digest": tree_digest(),
        "workers": workers,
    }
    for k, v in sets.items():
        if len(v) <= 80:
            coverage.setdefault("reach_set_members", {})[k] = sorted(v)
    if lines_reached is not None:
        coverage["lines_reached_in_traced_sample"] = lines_reached
    coverage.update(extra)
    ev = {
        "property_id": prop,
        "tier": tier,
        "seed": master,
        "level": "exploration",
        "coverage": coverage,
        "assumptions": mod.ASSUMPTIONS,
        "wall_s": round(wall, 2),
        "violations": len(new_viol),
    }

    rc = 0
    for sig, n in sorted(known_hits.items()):
        print(f"KNOWN-FINDING: property={prop} {known[sig]['what']} (signature {sig}; {n} runs)")
    if new_viol:
        new_viol.sort(key=lambda t: (t[0] if isinstance(t[0], int) else 1 << 60))
        index, v = new_viol[0]
        path = report_violation(mod, prop, master, tier, index, v, block)
        ev["coverage"]["first_violation"] = {"run": index, "class": v["class"], "detail": v["detail"][:400], "replay": path}
        print(f"VIOLATION property={prop} replay={path}")
        print(f"  class={v['class']} run={index} seed={master} detail={v['detail'][:300]}")
        rc = 1
    if write:
        ev["wall_s"] = round(time.time() - t0, 2)
        write_evidence(prop, ev)
    for k, v in sorted(counters.items()):
        if k.startswith("viol:"):
            print(f"  violating runs of class {k[5:]}: {v}")
    print(
        f"{prop} tier={tier} seed={master} runs={runs} distinct_nontrivial={distinct} "
        f"violations={len(new_viol)} known={sum(known_hits.values())} wall={time.time() - t0:.1f}s "
        f"event_log_digest={logd.hexdigest()}"
    )
    return rc


def report_violation(mod, prop, master, tier, index, v, block=0):
    """regenerate, make explicit, minimise, verify replay determinism, write
    the replay file.  Returns its path.  If the run fails only after the runs
    that preceded it in its block (state leaked between objects), the replay
    file carries that history, minimised."""
    os.makedirs(os.path.join(VERIF, "replays"), exist_ok=True)
    klass = v["class"]
    history = []
    if isinstance(index, int):
        out = exec_isolated(mod, [mod.generate(master, index, tier)])[0]
        if _same_class(out, klass):
            explicit = out["explicit"]
        else:
            # not reproducible alone: replay the block's history up to this run
            start = (index // block) * block if block else 0
            scns = [mod.generate(master, j, tier) for j in range(start, index + 1)]
            outs = exec_isolated(mod, scns)
            if not _same_class(outs[-1], klass):
                raise HarnessError(f"nondeterministic: run {index} reproduces {klass} neither alone nor after runs {start}..{index - 1}")
            explicit = outs[-1]["explicit"]
            history = [o["explicit"] for o in outs[:-1]]
    else:
        explicit = v["explicit"]  # systematic part hands over its own scenario
    out2 = exec_isolated(mod, history + [explicit])[-1]
    if not _same_class(out2, klass):
        raise HarnessError(f"nondeterministic: explicit scenario of run {index} does not reproduce {klass}")
    nexec = 0
    global HANG_S
    hang_full = HANG_S
    if klass.endswith(":hang"):
        HANG_S = min(HANG_S, 8.0)  # shrinking a hang: every failing candidate costs the limit
    if history:
        history, nexec = minimise_history(mod, history, explicit, klass)
    small, n2 = minimise(mod, explicit, klass, history=history)
    nexec += n2
    # the earlier runs the failure needs are shrunk too (a few, briefly)
    for i in range(min(len(history), 3)):
        h, n3 = minimise(mod, history[i], klass, budget_s=40.0, max_execs=600, history=history[:i], after=history[i + 1 :] + [small])
        history[i] = h
        nexec += n3
    HANG_S = hang_full
    out3 = exec_isolated(mod, history + [small])[-1]
    if not _same_class(out3, klass):
        small, out3 = explicit, exec_isolated(mod, history + [explicit])[-1]
    name = f"{prop}-s{master}-r{index}.json"
    path = os.path.join(VERIF, "replays", name)
    doc = {
        "property": prop,
        "master_seed": master,
        "run": index,
        "tier": tier,
        "tree_digest": tree_digest(),
        "class": klass,
        "signature": out3["violation"]["signature"],
        "detail": out3["violation"]["detail"],
        "event_log_digest": out3["digest"],
        "minimise_execs": nexec,
        "history": history,
        "history_note": "scenarios executed earlier in the same process; the violation needs them (state leaks across objects)" if history else "none needed: the scenario fails on its own in a fresh process",
        "scenario": small,
    }
    with open(path, "w") as f:
        json.dump(doc, f, indent=1)
        f.write("\n")
    # replay in a fresh process must reproduce class and digest
    import subprocess

    try:
        r = subprocess.run(
            [sys.executable, os.path.join(VERIF, "check"), prop, "--replay", path, "--quiet"],
            capture_output=True,
            text=True,
            timeout=600,
            env=dict(os.environ, PYTHONHASHSEED="12345"),
        )
    except subprocess.TimeoutExpired as e:
        raise HarnessError(f"fresh-process replay of {path} did not finish within 600 s") from e
    if r.returncode != 1 or f"REPLAYED class={klass} digest={out3['digest']}" not in r.stdout:
        raise HarnessError(
            "nondeterministic: fresh-process replay of %s gave rc=%s out=%r err=%r" % (path, r.returncode, r.stdout[-500:], r.stderr[-500:])
        )
    return path


def replay(prop, path, quiet=False):
    with open(path) as f:
        doc = json.load(f)
    mod = load_prop(prop)
    for h in doc.get("history", []):
        mod.execute(h)
    out = mod.execute(doc["scenario"])
    v = out["violation"]
    if v is None:
        print(f"REPLAYED no-violation digest={out['digest']}")
        return 0
    print(f"REPLAYED class={v['class']} digest={out['digest']}")
    if not quiet:
        print(f"  detail={v['detail']}")
        if v["class"] == doc.get("class") and out["digest"] != doc.get("event_log_digest"):
            print("  NOTE: same class, different event log digest than recorded (tree changed?)")
        print(f"VIOLATION property={prop} replay={path}")
    return 1


def main(argv):
    import argparse

    ap = argparse.ArgumentParser()
    ap.add_argument("prop")
    ap.add_argument("--tier", default=os.environ.get("VERIF_TIER", "quick"), choices=["quick", "thorough"])
    ap.add_argument("--replay")
    ap.add_argument("--quiet", action="store_true")
    ap.add_argument("--runs", type=int)
    ap.add_argument("--no-evidence", action="store_true")
    a = ap.parse_args(argv)
    prop = a.prop.upper()
    master = int(os.environ.get("VERIF_SEED", "0") or 0)
    workers = int(os.environ.get("VERIF_WORKERS", "0") or 0) or min(16, os.cpu_count() or 1)
    try:
        use_tree()
        if a.replay:
            return replay(prop, a.replay, a.quiet)
        return run_check(prop, a.tier, master, workers, a.runs, write=not a.no_evidence)
    except HarnessError as e:
        print(f"HARNESS-ERROR {e}")
        return 2
    except Exception:
        traceback.print_exc()
        print("HARNESS-ERROR unexpected exception in harness")
        return 2
    finally:
        cleanup_tree()
