"""Deterministic thread scheduler (C13).

Real threading.Thread objects, baton passing: exactly one worker thread is
runnable at any time, all others are parked on their own semaphore, so the OS
and the GIL switch interval never get to choose.  Pre-emption points are the
`line` events (sys.settrace) of frames whose code lives under the pyrtcm
source directory.  At each such event the switch source decides whether the
baton moves and to whom:

  generation : Bernoulli(p) per line, boosted right after a pyrtcm call/return
               (where shared state would be published or consumed), or PCT-style
               change points at seeded global step numbers, or time slices of
               log-uniformly drawn length (1 line .. several thousand)
  replay     : an explicit list [[global_step, target_thread], ...]

Every switch taken is recorded as [global_step, target]; that list is the
schedule of the run and replays exactly.
"""

import _thread
import sys
import threading


class SchedulerError(BaseException):
    pass


class DeadlockDetected(BaseException):
    """every live worker thread is blocked on a lock held by another one"""


class _Baton:
    """binary semaphore on a raw interpreter lock (never on threading.Lock,
    which install_lock_seam() replaces)"""

    def __init__(self):
        self._l = _thread.allocate_lock()
        self._l.acquire()

    def release(self):
        self._l.release()

    def acquire(self, timeout=None):
        if timeout is None:
            return self._l.acquire()
        return self._l.acquire(True, timeout)


# --------------------------------------------------------------------------
# lock seam: blocking synchronisation inside the code under test
#
# With baton passing only one worker runs.  If it blocks in a real
# Lock.acquire() on a lock whose holder is parked, nobody can ever release
# it: the *harness* would deadlock a perfectly correct, properly locked
# library (this happened with a refactor that guards a cache with a module
# level lock).  So locks created through threading.Lock / threading.RLock
# after install_lock_seam() are thin wrappers: outside a scheduled run they
# behave exactly like the real thing; inside, a would-block acquire hands the
# baton to another live worker and retries when this thread is scheduled
# again -- which is what the OS would do, with the choice of who runs next
# made by the scheduler (deterministically: the next live worker in order).
# --------------------------------------------------------------------------

_ACTIVE = {}  # thread ident -> (scheduler, tid) for worker threads of a running Scheduler
_REAL_LOCK = _thread.allocate_lock
_REAL_RLOCK = threading.RLock
_installed = [False]


class SimLock:
    def __init__(self):
        self._l = _REAL_LOCK()

    def acquire(self, blocking=True, timeout=-1):
        ent = _ACTIVE.get(_thread.get_ident())
        if ent is None:
            return self._l.acquire(blocking, timeout)
        while True:
            if self._l.acquire(False):
                return True
            if not blocking:
                return False
            if not ent[0].yield_blocked(ent[1]):
                if timeout is not None and timeout >= 0:
                    return False
                raise DeadlockDetected("all worker threads are blocked on locks")

    def release(self):
        self._l.release()

    def locked(self):
        return self._l.locked()

    __enter__ = acquire

    def __exit__(self, *a):
        self._l.release()

    def _at_fork_reinit(self):
        self._l = _REAL_LOCK()


class SimRLock:
    def __init__(self):
        self._l = _REAL_LOCK()
        self._owner = None
        self._count = 0

    def acquire(self, blocking=True, timeout=-1):
        me = _thread.get_ident()
        if self._owner == me:
            self._count += 1
            return True
        ent = _ACTIVE.get(me)
        if ent is None:
            ok = self._l.acquire(blocking, timeout)
        else:
            ok = False
            while True:
                if self._l.acquire(False):
                    ok = True
                    break
                if not blocking:
                    break
                if not ent[0].yield_blocked(ent[1]):
                    if timeout is not None and timeout >= 0:
                        break
                    raise DeadlockDetected("all worker threads are blocked on locks")
        if ok:
            self._owner = me
            self._count = 1
        return ok

    def release(self):
        if self._owner != _thread.get_ident():
            raise RuntimeError("cannot release un-acquired lock")
        self._count -= 1
        if self._count == 0:
            self._owner = None
            self._l.release()

    __enter__ = acquire

    def __exit__(self, *a):
        self.release()

    def _is_owned(self):
        return self._owner == _thread.get_ident()

    def _at_fork_reinit(self):
        self._l = _REAL_LOCK()
        self._owner = None
        self._count = 0


_ORIG = (threading.Lock, threading.RLock)


def install_lock_seam():
    """Active (a) while the tree under test is imported, so that its module
    level locks are created through the seam, and (b) for the whole life of a
    C13 scenario child, so that locks it creates at run time are too.  Not
    active otherwise: the harness' own machinery (process pools, logging)
    keeps real locks."""
    threading.Lock = SimLock
    threading.RLock = SimRLock
    _installed[0] = True


def remove_lock_seam():
    threading.Lock, threading.RLock = _ORIG
    _installed[0] = False


class Scheduler:
    def __init__(self, src_prefix, rng=None, p=0.0, p_boost=0.0, change_points=None, script=None, max_steps=20_000_000, slices=0):
        self.src_prefix = src_prefix
        self.rng = rng
        self.p = p
        self.p_boost = p_boost
        self.change_points = sorted(change_points) if change_points else None
        self.cpi = 0
        # "slices" mode: every time the baton moves, the length of the next time slice is drawn
        # log-uniformly from 1..slices lines, so that one run mixes very short slices (a thread is
        # stopped between two particular lines) with long ones (another thread then gets far
        # enough to touch the same state before the first resumes)
        self.slices = abs(slices)
        # slices < 0: the slice length counts only "fresh" lines (not executed by this thread within
        # its last 2000 line events), so slice ends spread evenly over distinct source lines instead
        # of piling up inside hot loops
        self.fresh_only = slices < 0
        self.remaining = 0
        self.script = [tuple(s) for s in script] if script is not None else None
        self.si = 0
        self.step = 0
        self.max_steps = max_steps
        self.taken = []  # [step, target]
        self.switch_sites = []  # (from_thread, file:line) at each switch
        self.sems = []
        self.alive = []
        self.current = -1
        self.errors = []
        self.n = 0
        self.inside = {}  # tid -> innermost pyrtcm function name (for reach stats)
        self.overlap_pairs = set()
        self.lock_yields = 0

    # -- decision ----------------------------------------------------------
    def _decide(self, tid, boosted, fresh=True):
        """return target thread id or -1"""
        step = self.step
        if self.script is not None:
            si = self.si
            scr = self.script
            while si < len(scr) and scr[si][0] < step:
                si += 1
            if si < len(scr) and scr[si][0] == step:
                self.si = si + 1
                return scr[si][1]
            self.si = si
            return -1
        if self.change_points is not None:
            if self.cpi < len(self.change_points) and self.change_points[self.cpi] <= step:
                self.cpi += 1
                return self._pick_other(tid)
            return -1
        if self.slices:
            if self.fresh_only and not fresh:
                return -1  # slice length is measured in lines this thread has not executed recently
            self.remaining -= 1
            if self.remaining <= 0:
                import math

                self.remaining = int(math.exp(self.rng.random() * math.log(self.slices))) or 1
                return self._pick_other(tid)
            return -1
        p = self.p_boost if boosted else self.p
        if p and self.rng.random() < p:
            return self._pick_other(tid)
        return -1

    def _pick_other(self, tid):
        others = [i for i in range(self.n) if i != tid and self.alive[i]]
        if not others:
            return -1
        return others[self.rng.randrange(len(others))] if len(others) > 1 else others[0]

    # -- blocking synchronisation (see the lock seam above) -----------------
    def yield_blocked(self, tid):
        """the running worker cannot get a lock: run somebody else.  Returns
        False if nobody else is alive (the caller decides what that means)."""
        nxt = -1
        for k in range(1, self.n + 1):
            j = (tid + k) % self.n
            if j != tid and self.alive[j]:
                nxt = j
                break
        if nxt < 0:
            return False
        self.lock_yields += 1
        if self.lock_yields > 20000:  # a holder gets the baton within n-1 yields; tens of thousands of fruitless yields = nobody can release
            raise DeadlockDetected("worker threads keep yielding on locks without progress")
        self.current = nxt
        self.sems[nxt].release()
        self.sems[tid].acquire()
        return True

    # -- tracing -----------------------------------------------------------
    def _make_tracer(self, tid):
        prefix = self.src_prefix
        state = {"boost": False}
        sched = self

        seen = {}
        mine = [0]
        fresh_only = self.fresh_only

        def local(frame, event, arg):
            if event == "line":
                sched.step += 1
                if sched.step > sched.max_steps:
                    raise SchedulerError("step budget exceeded")
                boosted = state["boost"]
                state["boost"] = False
                fresh = True
                if fresh_only:
                    mine[0] += 1
                    key = (frame.f_code, frame.f_lineno)
                    last = seen.get(key)
                    fresh = last is None or mine[0] - last > 2000
                    seen[key] = mine[0]
                tgt = sched._decide(tid, boosted, fresh)
                if tgt >= 0 and tgt != tid and tgt < sched.n and sched.alive[tgt]:
                    sched.taken.append([sched.step, tgt])
                    code = frame.f_code
                    site = "%s:%d" % (code.co_filename[len(prefix):], frame.f_lineno)
                    sched.switch_sites.append(site)
                    sched.inside[tid] = code.co_name
                    other = sched.inside.get(tgt)
                    if other:
                        sched.overlap_pairs.add((code.co_name, other))
                    sched.current = tgt
                    sched.sems[tgt].release()
                    sched.sems[tid].acquire()
            elif event == "return":
                state["boost"] = True
            return local

        def glob(frame, event, arg):
            if event == "call" and frame.f_code.co_filename.startswith(prefix):
                state["boost"] = True
                return local
            return None

        return glob

    # -- running -----------------------------------------------------------
    def run(self, bodies, first=0, timeout=120.0):
        n = self.n = len(bodies)
        self.sems = [_Baton() for _ in range(n)]
        self.alive = [True] * n
        results = [None] * n
        done = _Baton()

        def wrap(tid):
            self.sems[tid].acquire()  # wait for the baton
            _ACTIVE[_thread.get_ident()] = (self, tid)
            try:
                sys.settrace(self._make_tracer(tid))
                try:
                    results[tid] = bodies[tid]()
                finally:
                    sys.settrace(None)
            except BaseException as e:  # pylint: disable=broad-except
                self.errors.append((tid, repr(e)))
            finally:
                _ACTIVE.pop(_thread.get_ident(), None)
                self.alive[tid] = False
                self.inside.pop(tid, None)
                # hand the baton to the lowest-numbered live thread
                nxt = -1
                for i in range(n):
                    if self.alive[i]:
                        nxt = i
                        break
                if nxt >= 0:
                    self.current = nxt
                    self.sems[nxt].release()
                else:
                    done.release()

        threads = [threading.Thread(target=wrap, args=(i,), name=f"sim-{i}", daemon=True) for i in range(n)]
        for t in threads:
            t.start()
        self.current = first
        self.sems[first].release()
        if not done.acquire(timeout=timeout):
            raise SchedulerError("threads did not finish (deadlock in harness?)")
        for t in threads:
            t.join(timeout=10)
        if self.errors:
            if any("DeadlockDetected" in e for _, e in self.errors):
                raise DeadlockDetected(self.errors[0][1])
            raise SchedulerError(f"thread body raised: {self.errors[:2]}")
        return results
