#!/venv/bin/python
"""Self-test of the known-findings mechanism.

In a scratch copy of the tree the repair of finding 1 (zero-length frame ends
iteration) is reverted.  With a known-findings file that lists that finding as
OPEN by a specific signature (the input shape "zero-length frame directly
before the lost frame"), the C02 check must print a KNOWN-FINDING line per
listed signature that occurred and must still exit 1 with a VIOLATION for the
occurrences the file does not list (same defect, other input shapes: a
zero-length frame plus an NMEA sentence in the gap, ...).  Entries marked
fixed suppress nothing.  The real known_findings.json is never touched.
"""
import json
import os
import shutil
import subprocess
import sys
import tempfile

VERIF = os.path.dirname(os.path.dirname(os.path.abspath(__file__)))


def main():
    tmp = tempfile.mkdtemp(prefix="verif-kf-")
    try:
        shutil.copytree("/repo/src", os.path.join(tmp, "src"), ignore=shutil.ignore_patterns("__pycache__"))
        p = os.path.join(tmp, "src", "pyrtcm", "rtcmreader.py")
        s = open(p, newline="").read()
        assert s.count("if len(data) == 0 and size > 0:  # EOF") == 1
        open(p, "w", newline="").write(s.replace("if len(data) == 0 and size > 0:  # EOF", "if len(data) == 0:  # EOF"))

        def run(findings):
            kf = os.path.join(tmp, "kf.json")
            json.dump({"findings": findings}, open(kf, "w"))
            env = dict(os.environ, VERIF_REPO=tmp, VERIF_KNOWN_FINDINGS=kf)
            r = subprocess.run([os.path.join(VERIF, "check"), "C02", "--runs", "4000", "--no-evidence"], capture_output=True, text=True, env=env)
            return r.returncode, r.stdout

        one = {"status": "open", "property": "C02", "signature": "C02:early-stop@gap:filler:len0", "what": "a zero-length frame directly before a frame ends iteration"}
        two = {"status": "open", "property": "C02", "signature": "C02:lost-frame@gap:filler:len0", "what": "same, seen through a read-ahead stream as a lost frame"}
        rc0, out0 = run([])
        rc1, out1 = run([one])
        rc2, out2 = run([one, two])
        rc3, out3 = run([dict(one, status="fixed"), dict(two, status="fixed")])
        ok = (
            rc0 == 1 and "KNOWN-FINDING" not in out0
            and rc1 == 1 and out1.count("KNOWN-FINDING: property=C02") == 1 and "VIOLATION property=C02" in out1
            and rc2 == 1 and out2.count("KNOWN-FINDING: property=C02") == 2 and "VIOLATION property=C02" in out2
            and rc3 == 1 and "KNOWN-FINDING" not in out3
        )
        print("no file entries      : rc=%d" % rc0)
        print("one signature open   : rc=%d (other signature still reported)" % rc1)
        print("two signatures open  : rc=%d (unlisted input shapes still reported)" % rc2)
        print("entries marked fixed : rc=%d (fixed suppresses nothing)" % rc3)
        print("known-findings mechanism:", "OK" if ok else "BROKEN")
        if not ok:
            print(out1[-600:], out2[-600:])
        return 0 if ok else 1
    finally:
        shutil.rmtree(tmp, ignore_errors=True)


if __name__ == "__main__":
    sys.exit(main())
