#!/venv/bin/python
"""Sensitivity / false-alarm self-test (DESIGN 2.9).

Each entry is a hand-written change to pyrtcm applied in a scratch copy of
/repo/src (under a temp dir, removed afterwards; VERIF_REPO points there).
kind "mutant": the named checks must report a VIOLATION.
kind "refactor": behaviour preserving -- the named checks must stay silent.

usage: selftest/mutants.py [--only ID[,ID]] [--props C11,C12] [--runs N] [--tier quick]
"""

import argparse
import os
import shutil
import subprocess
import sys
import tempfile

VERIF = os.path.dirname(os.path.dirname(os.path.abspath(__file__)))

# (id, kind, props, file, old, new)
M = []


def m(mid, kind, props, file, old, new):
    M.append((mid, kind, props.split(","), file, old, new))


SW = "src/pyrtcm/socketwrapper.py"
RD = "src/pyrtcm/rtcmreader.py"
MS = "src/pyrtcm/rtcmmessage.py"

# ---- C11 -------------------------------------------------------------------
m("c11-if-topup", "mutant", "C11", SW, "        while len(self._buffer) < num:\n            if not self._recv():\n                return b\"\"",
  "        if len(self._buffer) < num:\n            if not self._recv():\n                return b\"\"")
m("c11-slice-plus1", "mutant", "C11", SW, "        self._buffer = self._buffer[num:]", "        self._buffer = self._buffer[num + 1 :] if num > 60 else self._buffer[num:]")
m("c11-clear-on-fail", "mutant", "C11", SW, "        except (OSError, TimeoutError):\n            return False", "        except (OSError, TimeoutError):\n            self._buffer = bytearray()\n            return False")
m("c11-le", "mutant", "C11", SW, "        while len(self._buffer) < num:", "        while len(self._buffer) <= num:")
m("c11-return-buffer", "mutant", "C11", SW, "        data = self._buffer[:num]\n", "        data = self._buffer[:num] if num != 3 else self._buffer[: num + 1]\n")
m("c11-readline-drop", "mutant", "C11", SW, "                if line[-2:] == b\"\\r\\n\":\n                    break", "                if line[-2:] == b\"\\r\\n\":\n                    break\n                if line[-2:] == b\"\\n\\n\":\n                    line = line[:-1]")
m("c11-readline-lf", "mutant", "C11", SW, "                if line[-2:] == b\"\\r\\n\":", "                if line[-1:] == b\"\\n\":")
m("c11-narrow-except", "mutant", "C11,C04", SW, "        except (OSError, TimeoutError):", "        except (TimeoutError, ConnectionResetError):")
m("c11-eof-drops-tail", "mutant", "C11", SW, "            if len(data) == 0:\n                return False", "            if len(data) == 0:\n                del self._buffer[-1:]\n                return False")
# refactors that must pass
m("c11-recv-num", "refactor", "C11,C02,C01", SW, "            data = self._socket.recv(self._bufsize)", "            data = self._socket.recv(min(self._bufsize, 4096))")
m("c11-partial-on-timeout", "refactor", "C11,C01,C04", SW, "            if not self._recv():\n                return b\"\"",
  "            if not self._recv():\n                data = bytes(self._buffer)\n                self._buffer = bytearray()\n                return data")
m("c11-offset-buffer", "refactor", "C11,C12", SW, "        data = self._buffer[:num]\n        self._buffer = self._buffer[num:]\n        return bytes(data)",
  "        data = bytes(self._buffer[:num])\n        del self._buffer[:num]\n        return data")

# ---- C12 -------------------------------------------------------------------
m("c12-unfix", "mutant", "C12", SW, "                if len(chunk) != chunk_length or len(crlf) != 2:", "                if len(chunk) != chunk_length:")
m("c12-partial-not-prepended", "mutant", "C12", SW, "                data = self._partial + data", "                data = data")
m("c12-int10", "mutant", "C12", SW, "int(length_bytes.strip(), 16)", "int(length_bytes.strip(), 16 if len(length_bytes) < 5 else 10)")
m("c12-zero-not-final", "refactor", "C12", SW, "            if chunk_length == 0:\n                # final chunk\n                break", "            if chunk_length == 0:\n                # final chunk\n                instream.readline()\n                break")
m("c12-decompress-concat", "mutant", "C12", SW, "                    if self._encoding & ENCODE_DEFLATE:\n                        chunk = decompress(chunk, wbits=-MAX_WBITS)",
  "                    if self._encoding & ENCODE_DEFLATE:\n                        chunk = decompress(chunk + b\"\", wbits=-MAX_WBITS) if len(chunk) < 200 else chunk")
m("c12-partial-lost-crlf", "mutant", "C12", SW, "                    partial = length_bytes + chunk + crlf", "                    partial = length_bytes + chunk")
m("c12-partial-reset-on-fail", "mutant", "C12", SW, "        except (OSError, TimeoutError):\n            return False", "        except (OSError, TimeoutError):\n            self._partial = b\"\"\n            return False")
m("c12-reader-drops-compression", "mutant", "C12", RD, "self._stream = SocketWrapper(datastream, encoding=encoding, bufsize=bufsize)", "self._stream = SocketWrapper(datastream, encoding=encoding & 1, bufsize=bufsize)")
m("c12-upper-only", "mutant", "C12", SW, "int(length_bytes.strip(), 16)", "int(length_bytes.strip().replace(b\"e\", b\"f\"), 16)")

# ---- C01 -------------------------------------------------------------------
m("c01-hdr-mask", "mutant", "C01", RD, "(byte2[0] & ~0x03) == 0", "(byte2[0] & ~0x07) == 0")
m("c01-hdr-mask-10bit", "mutant", "C01", RD, "(byte2[0] & ~0x03) == 0:\n                    (raw_data, parsed_data) = self._parse_rtcm3(bytehdr)", "(byte2[0] & ~0x13) == 0:\n                    (raw_data, parsed_data) = self._parse_rtcm3(bytes([0xD3, byte2[0] & 3]))")
m("c01-crc-gate-len", "mutant", "C01", RD, "            if calc_crc24q(message):", "            if len(message) < 300 and calc_crc24q(message):")
m("c01-payload-slice", "mutant", "C01", RD, "        payload = message[3:-3]", "        payload = message[3:-2]")
m("c01-raw-no-hdr3", "mutant", "C02", RD, "        raw_data = hdr + hdr3 + payload + crc", "        raw_data = hdr + payload + crc")
m("c01-crc-topbit", "mutant", "C01", RD, "            if calc_crc24q(message):", "            if calc_crc24q(message) and not message[-3] & 0x80:")
m("c01-short-read-glue", "mutant", "C01", RD, "        if 0 < len(data) < size:  # truncated stream\n            raise RTCMStreamError(", "        if 0 < len(data) < size and size < 3:  # truncated stream\n            raise RTCMStreamError(")
m("c01-stale-payload", "mutant", "C02", RD, "        payload = self._read_bytes(size)\n        crc = self._read_bytes(3)", "        payload = self._read_bytes(size)\n        self._last = getattr(self, \"_last\", payload) if size == 19 else payload\n        payload = self._last\n        crc = self._read_bytes(3)")
# refactors
m("c01-read-payload-crc-together", "refactor", "C01,C02,C05,C17,C04", RD, "        payload = self._read_bytes(size)\n        crc = self._read_bytes(3)", "        both = self._read_bytes(size + 3)\n        payload = both[:size]\n        crc = both[size:]")

# ---- C02 -------------------------------------------------------------------
m("c02-unfix-zero", "mutant", "C02", RD, "        if len(data) == 0 and size > 0:  # EOF", "        if len(data) == 0:  # EOF")
m("c02-len-8bit", "mutant", "C02", RD, "        size = (hdr[1] << 8) | hdr3[0]", "        size = hdr3[0]")
m("c02-len-9bit", "mutant", "C02", RD, "        size = (hdr[1] << 8) | hdr3[0]", "        size = ((hdr[1] & 1) << 8) | hdr3[0]")
m("c02-ubx-bigendian", "mutant", "C02", RD, "int.from_bytes(lenb, \"little\", signed=False)", "int.from_bytes(lenb, \"big\", signed=False)")
m("c02-ubx-no-cksum", "mutant", "C02", RD, "        byten = self._read_bytes(leni + 2)", "        byten = self._read_bytes(leni + 2) if leni else self._read_bytes(1)")
m("c02-nmea-fixed", "mutant", "C02", RD, "        byten = self._read_line()  # NMEA protocol is CRLF-terminated", "        byten = self._read_bytes(10)")
m("c02-ubx-return", "mutant", "C02", RD, "                    (raw_data, parsed_data) = self._parse_ubx(bytehdr)\n                    continue", "                    (raw_data, parsed_data) = self._parse_ubx(bytehdr)\n                    if len(raw_data) > 300:\n                        return (None, None)\n                    continue")
m("c02-sw-slice", "mutant", "C02,C11", SW, "        self._buffer = self._buffer[num:]", "        self._buffer = self._buffer[num:] if num != 1023 else self._buffer[num - 1 :]")
m("c02-nmea-talker-extended", "refactor", "C02,C01", "src/pyrtcm/rtcmtypes_core.py", "    b\"$W\",\n]", "    b\"$W\",\n    b\"$X\",\n]")
m("c02-fillers-delivered", "refactor", "C02,C04,C01", MS, "        try:\n            _ = self.identity  # payload must at least contain the message identity\n        except IndexError as err:  # pragma: no cover", "        try:\n            _ = self.identity  # payload must at least contain the message identity\n            if len(payload) < 0:\n                raise IndexError\n        except IndexError as err:  # pragma: no cover")

# ---- C04 -------------------------------------------------------------------
m("c04-unfix-short", "mutant", "C04", MS, "            _ = self.identity  # payload must at least contain the message identity", "            _ = 1")
m("c04-no-eof-catch", "mutant", "C04", RD, "            except EOFError:\n                return (None, None)", "            except MemoryError:\n                return (None, None)")
m("c04-narrow-reader-except", "mutant", "C04", RD, "                RTCMStreamError,\n                RTCMTypeError,\n            ) as err:", "                RTCMStreamError,\n            ) as err:")
m("c04-no-consume-loop", "mutant", "C04", RD, "                if byte1 not in (b\"\\xb5\", b\"\\x24\", b\"\\xd3\"):\n                    continue", "                if byte1 not in (b\"\\xb5\", b\"\\x24\", b\"\\xd3\"):\n                    if byte1 == b\"\\x0d\" and hasattr(self._stream, \"seek\"):\n                        self._stream.seek(-1, 1)\n                    continue")
m("c04-narrow-doattr", "mutant", "C04", MS, "        except Exception as err:  # pragma: no cover\n            raise RTCMTypeError(", "        except (ValueError, KeyError) as err:  # pragma: no cover\n            raise RTCMTypeError(")
m("c04-handler-fmt", "mutant", "C04", RD, "                    f\"RTCM3 message invalid - failed CRC: {message[-3:]}\"", "                    f\"RTCM3 message invalid - failed CRC: {message[-3:]} type {message[3] << 4 | message[4] >> 4}\"")
m("c04-sw-narrow", "mutant", "C04", SW, "        except (OSError, TimeoutError):", "        except TimeoutError:")

# ---- C05 -------------------------------------------------------------------
m("c05-continue-return", "mutant", "C05", RD, "                if self._quitonerror:\n                    self._do_error(err)\n                continue", "                if self._quitonerror:\n                    self._do_error(err)\n                if isinstance(err, RTCMParseError) and self._quitonerror == 0:\n                    return (None, None)\n                continue")
m("c05-handler-twice", "mutant", "C05", RD, "                self._errorhandler(err)", "                self._errorhandler(err)\n                if \"\\\\x00\" in str(err):\n                    self._errorhandler(err)")
m("c05-handler-in-ignore", "mutant", "C05", RD, "                if self._quitonerror:\n                    self._do_error(err)", "                if self._quitonerror or self._errorhandler:\n                    self._do_error(err)\n                if not self._quitonerror and self._errorhandler:\n                    self._errorhandler(err)")
m("c05-raise-as-log", "mutant", "C05", RD, "        if self._quitonerror == ERR_RAISE:\n            raise err from err", "        if self._quitonerror == ERR_RAISE and not self._errorhandler:\n            raise err from err")
m("c05-crc-unread-on-fail", "mutant", "C05", RD, "        raw_data = hdr + hdr3 + payload + crc\n", "        raw_data = hdr + hdr3 + payload + crc\n        if size > 600 and hasattr(self._stream, \"seek\") and calc_crc24q(raw_data):\n            self._stream.seek(-3, 1)\n")
m("c05-scan-for-d3", "mutant", "C05", RD, "                if self._quitonerror:\n                    self._do_error(err)\n                continue", "                if self._quitonerror:\n                    self._do_error(err)\n                if isinstance(err, RTCMParseError) and self._quitonerror == 1:\n                    self._read_bytes(1)\n                continue")
m("c05-wrong-exc-type", "mutant", "C05", RD, "                raise RTCMParseError(\n                    f\"RTCM3 message invalid - failed CRC: {message[-3:]}\"", "                raise RTCMStreamError(\n                    f\"RTCM3 message invalid - failed CRC: {message[-3:]}\"")

# ---- C17 -------------------------------------------------------------------
m("c17-validate-only-if-labelmsm", "mutant", "C17", RD, "        if validate & VALCKSUM:", "        if validate & VALCKSUM or labelmsm == 2:")
m("c17-parsed-false-skip-crc", "mutant", "C17", RD, "        crc = self._read_bytes(3)\n        raw_data = hdr + hdr3 + payload + crc", "        crc = self._read_bytes(3) if self._parsed else self._read_bytes(2) + b\"\\x00\"\n        raw_data = hdr + hdr3 + payload + crc")
m("c17-validate0-slice", "mutant", "C17", RD, "        payload = message[3:-3]", "        payload = message[3:-3] if validate else message[3:]")
m("c17-parsed-false-no-ubx", "mutant", "C17", RD, "                if bytehdr == UBX_HDR:", "                if bytehdr == UBX_HDR and self._parsed:")
m("c17-validate0-labelmsm", "mutant", "C17", RD, "        return RTCMMessage(payload=payload, labelmsm=labelmsm)", "        return RTCMMessage(payload=payload, labelmsm=labelmsm if validate else 1)")

# ---- C13 -------------------------------------------------------------------
m("c13-shared-index", "mutant", "C13", MS, "        index = []  # array of (nested) group indices", "        index = _SHARED_INDEX  # array of (nested) group indices\n        del index[:]")
m("c13-class-satmap", "mutant", "C13", MS, "        self._satmap = {}\n        nsat = 0", "        RTCMMessage._shared_satmap = self._satmap = getattr(RTCMMessage, \"_shared_satmap\", None) or {}\n        self._satmap.clear()\n        nsat = 0")
m("c13-global-labelmsm", "mutant", "C13", MS, "        sigcode = 0 if self._labelmsm == 2 else 1", "        global _LABELMSM\n        _LABELMSM = self._labelmsm\n        prnmap = dict(prnmap)\n        sigcode = 0 if _LABELMSM == 2 else 1")
m("c13-table-normalised", "mutant", "C13", MS, "            pdict = self._get_dict()\n", "            pdict = self._get_dict()\n            if pdict is not None and \"DF002\" in pdict and len(pdict) > 12:\n                pdict[\"DF002\"] = pdict.pop(\"DF002\")\n")
m("c13-memo-layout", "mutant", "C13", MS,
  ["            gsiz = getattr(self, anam)\n", "        index.append(0)  # add a (nested) group index level"],
  ["            gsiz = _GSIZ_MEMO.get((self.identity, anam), None) or getattr(self, anam)\n", "        if not isinstance(anam, int) and self.identity[:2] == \"10\":\n            _GSIZ_MEMO[(self.identity, anam)] = gsiz\n        index.append(0)  # add a (nested) group index level"])
m("c13-failed-parse-dirty", "mutant", "C13", MS, "        except Exception as err:  # pragma: no cover\n            raise RTCMTypeError(", "        except Exception as err:  # pragma: no cover\n            RTCM_DATA_FIELDS.setdefault(\"_errs\", []).append(anam)\n            raise RTCMTypeError(")
m("c13-locked-memo", "refactor", "C13", MS, "    def _get_dict(self) -> dict:", "    def _get_dict(self) -> dict:\n        with _MEMO_LOCK:\n            _MEMO_SEEN.add(self.identity)\n            _MEMO_SEEN.discard(None)\n        return self._get_dict2()\n\n    def _get_dict2(self) -> dict:")
m("c13-lock-order-deadlock", "mutant", "C13", MS, "    def _get_dict(self) -> dict:", "    def _get_dict(self) -> dict:\n        first, second = (_MEMO_LOCK, _MEMO_LOCK2) if self._labelmsm == 2 else (_MEMO_LOCK2, _MEMO_LOCK)\n        with first:\n            _MEMO_SEEN.add(self.identity)\n            with second:\n                _MEMO_SEEN.discard(None)\n        return self._get_dict2()\n\n    def _get_dict2(self) -> dict:")
m("c13-memo-getdict", "refactor", "C13", MS, "    def _get_dict(self) -> dict:", "    def _get_dict(self) -> dict:\n        _MEMO_SEEN.add(self.identity)\n        return self._get_dict2()\n\n    def _get_dict2(self) -> dict:")


def run(mid, kind, props, file, old, new, runs, tier, only_props):
    tmp = tempfile.mkdtemp(prefix="verif-mut-")
    try:
        shutil.copytree("/repo/src", os.path.join(tmp, "src"), ignore=shutil.ignore_patterns("__pycache__"))
        path = os.path.join(tmp, file)
        s = open(path).read()
        olds = old if isinstance(old, list) else [old]
        news = new if isinstance(new, list) else [new]
        for o_, n_ in zip(olds, news):
            if s.count(o_) != 1:
                return [(mid, kind, "-", f"PATTERN-COUNT={s.count(o_)}")]
            s = s.replace(o_, n_)
        if file.endswith("rtcmmessage.py"):
            s = s.replace('BOOL = "B"', 'import threading\n\nBOOL = "B"\n_SHARED_INDEX = []\n_GSIZ_MEMO = {}\n_MEMO_SEEN = set()\n_LABELMSM = 1\n_MEMO_LOCK = threading.Lock()\n_MEMO_LOCK2 = threading.Lock()')
        open(path, "w").write(s)
        out = []
        for p in props:
            if only_props and p not in only_props:
                continue
            cmd = [os.path.join(VERIF, "check"), p, "--tier", tier, "--no-evidence"]
            if runs:
                cmd += ["--runs", str(runs)]
            r = subprocess.run(cmd, capture_output=True, text=True, env=dict(os.environ, VERIF_REPO=tmp), timeout=3600)
            viol = [ln for ln in r.stdout.splitlines() if ln.startswith("VIOLATION") or ln.strip().startswith("class=")]
            if r.returncode == 2:
                verdict = "HARNESS-ERROR"
            elif kind == "mutant":
                verdict = "caught" if r.returncode == 1 else "MISSED"
            else:
                verdict = "silent" if r.returncode == 0 else "FALSE-ALARM"
            detail = viol[1].strip()[:160] if len(viol) > 1 else (r.stdout.strip().splitlines()[-1][:160] if r.stdout.strip() else r.stderr[-200:])
            out.append((mid, kind, p, verdict + "  " + detail))
        return out
    finally:
        shutil.rmtree(tmp, ignore_errors=True)


def main():
    ap = argparse.ArgumentParser()
    ap.add_argument("--only")
    ap.add_argument("--props")
    ap.add_argument("--runs", type=int, default=0)
    ap.add_argument("--tier", default="quick")
    a = ap.parse_args()
    only = set(a.only.split(",")) if a.only else None
    only_props = set(a.props.split(",")) if a.props else None
    bad = 0
    for mid, kind, props, file, old, new in M:
        if only and mid not in only:
            continue
        if only_props and not (set(props) & only_props):
            continue
        for row in run(mid, kind, props, file, old, new, a.runs, a.tier, only_props):
            print("%-28s %-9s %-4s %s" % row, flush=True)
            if "MISSED" in row[3] or "FALSE-ALARM" in row[3] or "HARNESS" in row[3] or "PATTERN" in row[3]:
                bad += 1
    print("problems:", bad)
    return 1 if bad else 0


if __name__ == "__main__":
    sys.exit(main())
