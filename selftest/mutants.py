#!/venv/bin/python
"""Sensitivity / false-alarm self-test (DESIGN 2.9).

Each entry is a hand-written change to pyrtcm applied in a scratch copy of
/repo/src (under a temp dir, removed afterwards; VERIF_REPO points there).
kind "mutant": the named checks must report a VIOLATION.
kind "refactor": behaviour preserving -- the named checks must stay silent.

usage: selftest/mutants.py [--only ID[,ID]] [--props C11,C12] [--runs N] [--tier quick]
"""

import argparse
import os
import shutil
import subprocess
import sys
import tempfile

VERIF = os.path.dirname(os.path.dirname(os.path.abspath(__file__)))

# (id, kind, props, file, old, new)
M = []


def m(mid, kind, props, file, old, new):
    M.append((mid, kind, props.split(","), file, old, new))


SW = "src/pyrtcm/socketwrapper.py"
RD = "src/pyrtcm/rtcmreader.py"
MS = "src/pyrtcm/rtcmmessage.py"

# ---- C11 -------------------------------------------------------------------
m("c11-if-topup", "mutant", "C11", SW, "        while len(self._buffer) < num:\n            if not self._recv():\n                return b\"\"",
  "        if len(self._buffer) < num:\n            if not self._recv():\n                return b\"\"")
m("c11-slice-plus1", "mutant", "C11", SW, "        self._buffer = self._buffer[num:]", "        self._buffer = self._buffer[num + 1 :] if num > 60 else self._buffer[num:]")
m("c11-clear-on-fail", "mutant", "C11", SW, "        except (OSError, TimeoutError):\n            return False", "        except (OSError, TimeoutError):\n            self._buffer = bytearray()\n            return False")
m("c11-le", "mutant", "C11", SW, "        while len(self._buffer) < num:", "        while len(self._buffer) <= num:")
m("c11-return-buffer", "mutant", "C11", SW, "        data = self._buffer[:num]\n", "        data = self._buffer[:num] if num != 3 else self._buffer[: num + 1]\n")
m("c11-readline-drop", "mutant", "C11", SW, "                if line[-2:] == b\"\\r\\n\":\n                    break", "                if line[-2:] == b\"\\r\\n\":\n                    break\n                if line[-2:] == b\"\\n\\n\":\n                    line = line[:-1]")
m("c11-readline-lf", "mutant", "C11", SW, "                if line[-2:] == b\"\\r\\n\":", "                if line[-1:] == b\"\\n\":")
m("c11-narrow-except", "mutant", "C11,C04", SW, "        except (OSError, TimeoutError):", "        except (TimeoutError, ConnectionResetError):")
m("c11-eof-drops-tail", "mutant", "C11", SW, "            if len(data) == 0:\n                return False", "            if len(data) == 0:\n                del self._buffer[-1:]\n                return False")
# refactors that must pass
m("c11-recv-num", "refactor", "C11,C02,C01", SW, "            data = self._socket.recv(self._bufsize)", "            data = self._socket.recv(min(self._bufsize, 4096))")
m("c11-partial-on-timeout", "refactor", "C11,C01,C04", SW, "            if not self._recv():\n                return b\"\"",
  "            if not self._recv():\n                data = bytes(self._buffer)\n                self._buffer = bytearray()\n                return data")
m("c11-offset-buffer", "refactor", "C11,C12", SW, "        data = self._buffer[:num]\n        self._buffer = self._buffer[num:]\n        return bytes(data)",
  "        data = bytes(self._buffer[:num])\n        del self._buffer[:num]\n        return data")

# ---- C12 -------------------------------------------------------------------
m("c12-unfix", "mutant", "C12", SW, "                if len(chunk) != chunk_length or len(crlf) != 2:", "                if len(chunk) != chunk_length:")
m("c12-partial-not-prepended", "mutant", "C12", SW, "                data = self._partial + data", "                data = data")
m("c12-int10", "mutant", "C12", SW, "int(length_bytes.strip(), 16)", "int(length_bytes.strip(), 16 if len(length_bytes) < 5 else 10)")
m("c12-zero-not-final", "refactor", "C12", SW, "            if chunk_length == 0:\n                # final chunk\n                break", "            if chunk_length == 0:\n                # final chunk\n                instream.readline()\n                break")
m("c12-decompress-concat", "mutant", "C12", SW, "                    if self._encoding & ENCODE_DEFLATE:\n                        chunk = decompress(chunk, wbits=-MAX_WBITS)",
  "                    if self._encoding & ENCODE_DEFLATE:\n                        chunk = decompress(chunk + b\"\", wbits=-MAX_WBITS) if len(chunk) < 200 else chunk")
m("c12-partial-lost-crlf", "mutant", "C12", SW, "                    partial = length_bytes + chunk + crlf", "                    partial = length_bytes + chunk")
m("c12-upper-only", "mutant", "C12", SW, "int(length_bytes.strip(), 16)", "int(length_bytes.strip().replace(b\"e\", b\"f\"), 16)")


def run(mid, kind, props, file, old, new, runs, tier, only_props):
    tmp = tempfile.mkdtemp(prefix="verif-mut-")
    try:
        shutil.copytree("/repo/src", os.path.join(tmp, "src"), ignore=shutil.ignore_patterns("__pycache__"))
        path = os.path.join(tmp, file)
        s = open(path).read()
        if s.count(old) != 1:
            return [(mid, kind, "-", f"PATTERN-COUNT={s.count(old)}")]
        open(path, "w").write(s.replace(old, new))
        out = []
        for p in props:
            if only_props and p not in only_props:
                continue
            cmd = [os.path.join(VERIF, "check"), p, "--tier", tier, "--no-evidence"]
            if runs:
                cmd += ["--runs", str(runs)]
            r = subprocess.run(cmd, capture_output=True, text=True, env=dict(os.environ, VERIF_REPO=tmp), timeout=3600)
            viol = [ln for ln in r.stdout.splitlines() if ln.startswith("VIOLATION") or ln.strip().startswith("class=")]
            if r.returncode == 2:
                verdict = "HARNESS-ERROR"
            elif kind == "mutant":
                verdict = "caught" if r.returncode == 1 else "MISSED"
            else:
                verdict = "silent" if r.returncode == 0 else "FALSE-ALARM"
            detail = viol[1].strip()[:160] if len(viol) > 1 else (r.stdout.strip().splitlines()[-1][:160] if r.stdout.strip() else r.stderr[-200:])
            out.append((mid, kind, p, verdict + "  " + detail))
        return out
    finally:
        shutil.rmtree(tmp, ignore_errors=True)


def main():
    ap = argparse.ArgumentParser()
    ap.add_argument("--only")
    ap.add_argument("--props")
    ap.add_argument("--runs", type=int, default=0)
    ap.add_argument("--tier", default="quick")
    a = ap.parse_args()
    only = set(a.only.split(",")) if a.only else None
    only_props = set(a.props.split(",")) if a.props else None
    bad = 0
    for mid, kind, props, file, old, new in M:
        if only and mid not in only:
            continue
        if only_props and not (set(props) & only_props):
            continue
        for row in run(mid, kind, props, file, old, new, a.runs, a.tier, only_props):
            print("%-28s %-9s %-4s %s" % row, flush=True)
            if "MISSED" in row[3] or "FALSE-ALARM" in row[3] or "HARNESS" in row[3] or "PATTERN" in row[3]:
                bad += 1
    print("problems:", bad)
    return 1 if bad else 0


if __name__ == "__main__":
    sys.exit(main())
