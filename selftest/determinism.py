#!/venv/bin/python
"""Determinism self-test (DESIGN 2.8): the aggregated event-log digest of N
runs (every transport call and result, every delivered raw, every exception
type, every context switch) must be identical across
  - repetition,
  - worker counts 1 / 4 / 16 (different processes execute different runs),
  - a fresh interpreter under another PYTHONHASHSEED.
usage: selftest/determinism.py [--props C01,...] [--runs N] [--seeds 0,1,2]
"""
import argparse
import os
import re
import subprocess
import sys

VERIF = os.path.dirname(os.path.dirname(os.path.abspath(__file__)))
ALL = ["C01", "C02", "C04", "C05", "C11", "C12", "C13", "C17"]


def digest(prop, seed, runs, workers, hashseed):
    env = dict(os.environ, VERIF_SEED=str(seed), VERIF_WORKERS=str(workers), PYTHONHASHSEED=str(hashseed))
    r = subprocess.run([os.path.join(VERIF, "check"), prop, "--runs", str(runs), "--no-evidence"], capture_output=True, text=True, env=env, timeout=3600)
    m = re.search(r"event_log_digest=([0-9a-f]+)", r.stdout)
    return (r.returncode, m.group(1) if m else None)


def main():
    ap = argparse.ArgumentParser()
    ap.add_argument("--props", default=",".join(ALL))
    ap.add_argument("--runs", type=int, default=2000)
    ap.add_argument("--seeds", default="0,1,7")
    a = ap.parse_args()
    bad = 0
    for prop in a.props.split(","):
        if not os.path.exists(os.path.join(VERIF, "sim", "props", prop.lower() + ".py")):
            continue
        for seed in [int(x) for x in a.seeds.split(",")]:
            configs = [(16, 0), (16, 0), (4, 12345), (1, 999), (7, 31337)]
            got = [digest(prop, seed, a.runs, w, h) for w, h in configs]
            ok = len(set(got)) == 1 and got[0][1] is not None and got[0][0] == 0
            print(f"{prop} seed={seed} runs={a.runs} configs(workers,hashseed)={configs} -> {'IDENTICAL ' + got[0][1] if ok else 'DIVERGED ' + str(got)}", flush=True)
            bad += 0 if ok else 1
    print("divergences:", bad)
    return 1 if bad else 0


if __name__ == "__main__":
    sys.exit(main())
