#!/bin/bash
# Runs every check's thorough tier, then its quick tier, in /verif against /repo,
# so that evidence/thorough/<id>.json and evidence/<id>.json are both current.
cd "$(dirname "$0")/.."
rc=0
for p in C01 C02 C04 C05 C11 C12 C17 C13; do
  ./check $p --tier thorough || rc=1
done
for p in C01 C02 C04 C05 C11 C12 C13 C17; do
  ./check $p --tier quick || rc=1
done
exit $rc
