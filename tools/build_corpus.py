#!/venv/bin/python
"""One-off corpus builder (run on the clean tree; output is committed and
never regenerated at check time).

 corpus/real.txt   : frames cut from the repo's recorded logs by sim.wire
 corpus/synth.txt  : "probe and trim" payloads for every defined identity

Usage: tools/build_corpus.py [/repo]
"""

import glob
import os
import random
import sys

HERE = os.path.dirname(os.path.abspath(__file__))
ROOT = os.path.dirname(HERE)
sys.path.insert(0, ROOT)
REPO = sys.argv[1] if len(sys.argv) > 1 else "/repo"
sys.path.insert(0, os.path.join(REPO, "src"))

from sim import wire  # noqa: E402


def build_real():
    seen = set()
    out = []
    for path in sorted(glob.glob(os.path.join(REPO, "tests", "pygpsdata-*"))):
        data = open(path, "rb").read()
        for fr in wire.deframe_all(data):
            if fr in seen:
                continue
            seen.add(fr)
            out.append((os.path.basename(path), fr))
    from pyrtcm import RTCMReader

    with open(os.path.join(ROOT, "corpus", "real.txt"), "w") as f:
        for name, fr in out:
            # "ok" = decodable by the clean tree's definitions; the others
            # (a 1302 frame the upstream test suite itself marks as truncated)
            # are kept but never required to be delivered
            try:
                RTCMReader.parse(fr)
                flag = "ok"
            except Exception:
                flag = "undecodable"
            f.write(f"{wire.frame_identity(fr)} {name} {flag} {fr.hex()}\n")
    print("real frames:", len(out), "identities:", len({wire.frame_identity(f) for _, f in out}))


def header_bits(identity: str):
    """(value, nbits) of the identity header"""
    if identity.startswith("4076_"):
        sub = int(identity[5:])
        # 12 bits 4076, 3 bits version, 8 bits subtype
        return (4076 << 11) | sub, 23
    return int(identity), 12


def sparse_bits(rng, nbits, density):
    v = 0
    if density <= 0:
        return 0
    if density >= 0.5:
        return rng.getrandbits(nbits)
    k = max(1, int(nbits * density))
    for _ in range(k):
        v |= 1 << rng.randrange(nbits)
    return v


def build_synth():
    from pyrtcm import RTCMMessage
    from pyrtcm.rtcmtypes_get import RTCM_PAYLOADS_GET
    from pyrtcm.rtcmtypes_get_igs import RTCM_PAYLOADS_GET_IGS
    from pyrtcm.rtcmtypes_get_msm import RTCM_PAYLOADS_GET_MSM

    ids = sorted(RTCM_PAYLOADS_GET) + sorted(RTCM_PAYLOADS_GET_MSM) + sorted(RTCM_PAYLOADS_GET_IGS)
    rng = random.Random(20261004)

    def parses(p):
        try:
            m = RTCMMessage(payload=p)
            return m.identity
        except Exception:
            return None

    lines = []
    missing = []
    for ident in ids:
        hv, hn = header_bits(ident)
        found = {}
        for density in (0.0, 0.002, 0.005, 0.01, 0.02, 0.05, 0.1, 0.2, 0.5):
            for _ in range(12):
                total = 1023 * 8
                body = sparse_bits(rng, total - hn, density)
                if hn == 23:
                    # keep the 3 version bits zero
                    val = ((4076 << 11 | (hv & 0xFF)) << (total - 23)) | body
                else:
                    val = (hv << (total - hn)) | body
                p = val.to_bytes(1023, "big")
                if parses(p) != ident:
                    continue
                lo, hi = 2, 1023  # smallest accepted prefix
                while lo < hi:
                    mid = (lo + hi) // 2
                    if parses(p[:mid]) == ident:
                        hi = mid
                    else:
                        lo = mid + 1
                need = lo
                if need not in found:
                    found[need] = p[:need]
        if not found:
            missing.append(ident)
            continue
        needs = sorted(found)
        # keep a spread: smallest, median, largest, plus up to 2 more
        pick = {needs[0], needs[len(needs) // 2], needs[-1]}
        for n in needs:
            if len(pick) >= 5:
                break
            pick.add(n)
        for n in sorted(pick):
            core = found[n]
            padded = min(1023, max(n, 2 * n + 64))
            p = core + bytes(padded - n)
            assert parses(p) == ident
            lines.append(f"{ident} {n} {p.hex()}")
    with open(os.path.join(ROOT, "corpus", "synth.txt"), "w") as f:
        f.write("\n".join(lines) + "\n")
    print("synthetic payloads:", len(lines), "identities:", len(ids) - len(missing), "missing:", missing)


if __name__ == "__main__":
    build_real()
    build_synth()
