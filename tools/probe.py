#!/venv/bin/python
"""probe.py PROP CLASS-SUBSTRING [nruns] [seed] : minimise and show the first run failing with that class"""
import json, os, sys
sys.path.insert(0, os.path.dirname(os.path.dirname(os.path.abspath(__file__))))
from sim import runner
runner.use_tree()
prop, sub = sys.argv[1], sys.argv[2]
n = int(sys.argv[3]) if len(sys.argv) > 3 else 3000
seed = int(sys.argv[4]) if len(sys.argv) > 4 else 0
mod = runner.load_prop(prop)
for i in range(n):
    scn = mod.generate(seed, i, "quick")
    out = mod.execute(scn)
    v = out["violation"]
    if v and sub in v["class"]:
        print("run", i, v)
        small, k = runner.minimise(mod, out["explicit"], v["class"])
        o2 = mod.execute(small)
        print(json.dumps(small)[:3000])
        print(o2["violation"])
        break
else:
    print("none found")
runner.cleanup_tree()
