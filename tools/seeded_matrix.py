#!/venv/bin/python
"""Run checks against every seeded change under seeded/ and record the
detection matrix (seeded/MATRIX.md and seeded/<id>/result.json).

  tools/seeded_matrix.py [--only ID,ID] [--props own|all|C01,C02] [--tier quick] [--jobs 2]
"""

import argparse
import json
import os
import re
import subprocess
import sys
from concurrent.futures import ThreadPoolExecutor

VERIF = os.path.dirname(os.path.dirname(os.path.abspath(__file__)))
ALL = ["C01", "C02", "C04", "C05", "C11", "C12", "C13", "C17"]


def one(sid, props, tier, workers):
    d = os.path.join(VERIF, "seeded", sid)
    r = subprocess.run(
        [os.path.join(VERIF, "tools", "run_seeded.py"), d, "--props", ",".join(props), "--tier", tier],
        capture_output=True,
        text=True,
        env=dict(os.environ, VERIF_WORKERS=str(workers)),
    )
    m = re.search(r"^RESULT (.*)$", r.stdout, re.M)
    res = json.loads(m.group(1)) if m else {"error": r.stdout[-500:] + r.stderr[-500:]}
    res["tier"] = tier
    old = {}
    path = os.path.join(d, "result.json")
    if os.path.exists(path):
        old = json.load(open(path))
    checks = old.get("checks", {})
    checks.update(res.get("checks", {}))
    res["checks"] = checks
    res["caught_by"] = sorted(p for p, v in checks.items() if v.get("rc") == 1)
    res.pop("dir", None)
    json.dump(res, open(path, "w"), indent=1, sort_keys=True)
    print(sid, "caught by", res["caught_by"], flush=True)
    return sid, res


def main():
    ap = argparse.ArgumentParser()
    ap.add_argument("--only")
    ap.add_argument("--props", default="own")
    ap.add_argument("--tier", default="quick")
    ap.add_argument("--jobs", type=int, default=2)
    a = ap.parse_args()
    ids = sorted(x for x in os.listdir(os.path.join(VERIF, "seeded")) if os.path.isdir(os.path.join(VERIF, "seeded", x)) and not x.startswith("refactor-"))
    if a.only:
        ids = [i for i in ids if i in a.only.split(",")]
    jobs = []
    workers = max(2, 16 // a.jobs)
    with ThreadPoolExecutor(max_workers=a.jobs) as ex:
        for sid in ids:
            meta = json.load(open(os.path.join(VERIF, "seeded", sid, "meta.json")))
            if a.props == "own":
                props = [meta["property"]]
            elif a.props == "all":
                props = ALL
            elif a.props == "related":
                # every check that exercises a file the patch touches (own check excluded: already run)
                diff = open(os.path.join(VERIF, "seeded", sid, "patch.diff")).read()
                rel = set()
                if "socketwrapper.py" in diff:
                    rel |= {"C11", "C12", "C01", "C02", "C04", "C13"}
                if "rtcmreader.py" in diff:
                    rel |= {"C01", "C02", "C04", "C05", "C17", "C11", "C13"}
                if "rtcmmessage.py" in diff or "rtcmhelpers.py" in diff or "rtcmtypes" in diff or "rtcmtables" in diff:
                    rel |= {"C13", "C04", "C02", "C17", "C05"}
                props = sorted(rel - {meta["property"]})
            else:
                props = a.props.split(",")
            jobs.append(ex.submit(one, sid, props, a.tier, workers))
        for j in jobs:
            j.result()
    write_matrix()


def write_matrix():
    allids = sorted(x for x in os.listdir(os.path.join(VERIF, "seeded")) if os.path.isdir(os.path.join(VERIF, "seeded", x)))
    ids = [x for x in allids if not x.startswith("refactor-")]
    lines = ["# Seeded changes x checks (quick tier, VERIF_SEED=0 unless noted)", "", "V = VIOLATION reported, . = silent, blank = not run, E = harness error", "", "| seeded change | breaks | " + " | ".join(ALL) + " | tests+demo |", "|---|---|" + "---|" * (len(ALL) + 1)]
    for sid in ids:
        d = os.path.join(VERIF, "seeded", sid)
        meta = json.load(open(os.path.join(d, "meta.json")))
        res = json.load(open(os.path.join(d, "result.json"))) if os.path.exists(os.path.join(d, "result.json")) else {}
        row = []
        for p in ALL:
            v = res.get("checks", {}).get(p)
            row.append("" if v is None else {0: ".", 1: "V", 2: "E"}.get(v["rc"], "?"))
        ok = res.get("tests_rc") == 0 and res.get("demo_clean_rc") == 0 and res.get("demo_patched_rc", 0) != 0
        lines.append(f"| {sid} | {meta['property']} | " + " | ".join(row) + f" | {'ok' if ok else '?'} |")
    lines += ["", "# Behaviour-preserving refactors (round 3): every check that was run must stay silent", "", "| refactor | focus | " + " | ".join(ALL) + " |", "|---|---|" + "---|" * len(ALL)]
    for sid in [x for x in allids if x.startswith("refactor-")]:
        meta = json.load(open(os.path.join(VERIF, "seeded", sid, "meta.json")))
        row = []
        for p in ALL:
            v = meta.get("checks_run_quick_tier_seed0", {}).get(p)
            row.append("" if v is None else {"silent": ".", "VIOLATION": "V"}.get(v["verdict"], "E"))
        lines.append(f"| {sid} | {meta['focus']} | " + " | ".join(row) + " |")
    open(os.path.join(VERIF, "seeded", "MATRIX.md"), "w").write("\n".join(lines) + "\n")


if __name__ == "__main__":
    if len(sys.argv) > 1 and sys.argv[1] == "--matrix-only":
        write_matrix()
    else:
        main()
