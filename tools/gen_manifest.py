#!/venv/bin/python
"""Writes MANIFEST.json from one table (keeps it valid and consistent)."""
import json
import os

VERIF = os.path.dirname(os.path.dirname(os.path.abspath(__file__)))

CLAIMED = {
    "C01": ("5 C01", "seeded simulation: hostile peer script + faulty transports (short/empty reads, EOF, recv segmentation, timeouts) -> real RTCMReader; every delivered frame located as a slice of the bytes handed over and re-validated by an independent framer/CRC"),
    "C02": ("5 C02", "seeded simulation, fault-free configuration: well-formed mixed peer script over BytesIO / BufferedReader-over-chunky-raw / socket with seeded segmentation; delivered frames compared with the generator's ground-truth list"),
    "C04": ("5 C04", "seeded simulation: hostile peer (CRC-valid frames around arbitrary/mutated payloads, garbage) over faulty transports in every error mode; only pyrtcm.exceptions may escape, nothing in ignore/log mode, bounded transport calls (liveness in simulated steps)"),
    "C05": ("5 C05", "seeded simulation: line damage (guaranteed-detectable bit flips/bursts behind the header) injected into a seeded subset of frames in flight; event sequence of the same reader object compared with the script in ignore/log/raise modes incl. resumption after raise"),
    "C11": ("5 C11", "seeded simulation: SocketWrapper under adversarial and timed (virtual clock) link models with timeouts/OS errors/close, checked op by op against a byte-queue reference model; plus reader-over-socket vs reader-over-file differential"),
    "C12": ("5 C12", "seeded simulation of recv partitions of chunked (+gzip/zlib/deflate) bodies against an independent RFC 9112 decoder, plus systematic schedules (all partitions of tiny bodies, every single/pair of cuts)"),
    "C13": ("5 C13", "deterministic thread scheduler (real threads, baton passing, sys.settrace line pre-emption decided by the seed) + seeded sequential histories; every outcome compared with the same bytes parsed alone in a fresh process; definition tables digested before/after"),
    "C17": ("5 C17", "metamorphic re-execution of one seeded world under reader configurations differing in one option; raws, parsed attribute dicts and located frame extents compared"),
}

NA = {
    "C03": "pure function payload bytes -> attributes; no stream, schedule, clock or fault in the statement; needs an independent encoder and enumeration over definitions x values (input generation, not simulation)",
    "C06": "pure function of a truncated payload given to the constructor; no schedule or fault; stream truncation (its nearest simulated analogue) is decided under C01/C04",
    "C07": "serialize/parse/repr round trip: pure functions of one payload; nothing for a simulator to schedule or fail",
    "C08": "CRC arithmetic on a byte string via the static parser; pure; line damage through the reader is C05, which relies on but does not establish C08",
    "C09": "MSM mask-to-label mapping: pure function of three masks and the constellation",
    "C10": "static conformance of definition tables to external standards; no execution environment involved",
    "C14": "attempted assignments on one object in one thread: sequential and fault-free, a 'history' here is only an input list",
    "C15": "identity / unknown types / ismsm: pure function of the first three payload bytes; calls for enumeration (4096 x 256), not sampling of schedules",
    "C16": "label option: pure comparison of two parses of the same payload",
    "C18": "array helpers vs flat attributes: pure function of a parsed message",
    "C19": "attribute-name helpers: pure string functions",
}


def built(p):
    return os.path.exists(os.path.join(VERIF, "sim", "props", p.lower() + ".py"))


def main():
    checks = []
    for p, (ref, tech) in CLAIMED.items():
        if not built(p):
            continue
        checks.append(
            {
                "property_id": p,
                "quick_cmd": f"./check {p} --tier quick",
                "thorough_cmd": f"./check {p} --tier thorough",
                "evidence_file": f"/verif/evidence/{p}.json",
                "replay_cmd_template": f"./check {p} --replay {{path}}",
                "engine": "sim",
                "level_claimed": {
                    "category": "exploration",
                    "text": "Seeded search over schedules and fault sequences in a deterministic simulator running the real pyrtcm code: a clean batch is evidence, not proof. Every run is a pure function of (VERIF_SEED, run index, tree); failures are minimised and written as an explicit replay file that reproduces in a fresh process.",
                    "design_ref": "DESIGN.md section " + ref,
                },
                "level_note": "Trusted: the independent wire library (sim/wire.py: table-driven CRC-24Q, framers, RFC 9112 chunk decoder), the pinned corpus under corpus/, the transport doubles (legal streams only: never more than requested, never rewinding), CPython's io/zlib/threading. Sampling, not enumeration (except the C12 systematic sweeps).",
                "technique": "deterministic simulation with fault injection: " + tech,
            }
        )
    na = [{"property_id": p, "reason": r} for p, r in NA.items()]
    for p in CLAIMED:
        if not built(p):
            na.append({"property_id": p, "reason": "claimed in DESIGN.md; check not yet built at this commit (simulation target, will be added)"})
    man = {
        "version": 1,
        "setup_cmd": "/venv/bin/python -c \"import sys; assert sys.version_info[:2] >= (3, 10)\" && mkdir -p /verif/evidence /verif/replays",
        "hooks": {
            "guard": "PYRTCM_VERIF",
            "enable": "no hooks: every seam the simulator needs (stream object, socket subclass, caller threads, constructor options) is already injectable; the guard name is reserved and unused",
            "baseline_off_cmd": "cd /repo && /venv/bin/python -m pytest -ra -q -p no:cacheprovider --timeout=900 --continue-on-collection-errors",
            "source_commits": [],
            "add_only": True,
        },
        "engines": [
            {
                "name": "sim",
                "path": "/verif/sim",
                "serves_properties": [c["property_id"] for c in checks],
                "kind_free_text": "deterministic discrete-event simulator with fault injection (stdlib Python): seeded peer scripts, transport doubles with adversarial/timed deciders on a virtual clock, deterministic thread scheduler, independent wire-format reference, class-preserving delta-debugging minimiser, explicit replay files",
            }
        ],
        "checks": checks,
        "not_applicable": sorted(na, key=lambda d: d["property_id"]),
        "notes": "Env: VERIF_SEED (master seed, default 0), VERIF_TIER, VERIF_REPO (tree under test, default /repo), VERIF_WORKERS (default 16). Exit 0 held / 1 VIOLATION / 2 HARNESS-ERROR. Genuine defects found and repaired are listed in known_findings.json (fixed entries suppress nothing). Sensitivity and false-alarm self-tests: selftest/mutants.py; determinism: selftest/determinism.py.",
    }
    with open(os.path.join(VERIF, "MANIFEST.json"), "w") as f:
        json.dump(man, f, indent=1)
        f.write("\n")
    print("checks:", [c["property_id"] for c in checks])


if __name__ == "__main__":
    main()
