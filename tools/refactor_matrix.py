#!/venv/bin/python
"""Run every check against every behaviour-preserving refactor under
seeded/refactor-*/ (must stay silent) and record the verdicts in meta.json.

  tools/refactor_matrix.py [--only ID,ID] [--props C01,...] [--tier quick]
"""
import argparse
import json
import os
import re
import subprocess
import sys

VERIF = os.path.dirname(os.path.dirname(os.path.abspath(__file__)))
ALL = ["C01", "C02", "C04", "C05", "C11", "C12", "C13", "C17"]


def main():
    ap = argparse.ArgumentParser()
    ap.add_argument("--only")
    ap.add_argument("--props", default=",".join(ALL))
    ap.add_argument("--tier", default="quick")
    ap.add_argument("--runs", type=int, default=0)
    ap.add_argument("--skip-tests", action="store_true")
    a = ap.parse_args()
    ids = sorted(x for x in os.listdir(os.path.join(VERIF, "seeded")) if x.startswith("refactor-"))
    if a.only:
        ids = [i for i in ids if i in a.only.split(",")]
    bad = 0
    for sid in ids:
        d = os.path.join(VERIF, "seeded", sid)
        cmd = [os.path.join(VERIF, "tools", "run_seeded.py"), d, "--props", a.props, "--tier", a.tier]
        if a.runs:
            cmd += ["--runs", str(a.runs)]
        if a.skip_tests:
            cmd += ["--skip-tests"]
        r = subprocess.run(cmd, capture_output=True, text=True)
        meta = json.load(open(os.path.join(d, "meta.json")))
        checks = {}
        for m in re.finditer(r"^check (C\d\d): (\S+)(.*)$", r.stdout, re.M):
            checks[m.group(1)] = {"verdict": m.group(2)}
            if m.group(2) != "silent":
                checks[m.group(1)]["detail"] = m.group(3).strip()[:300]
                bad += 1
        tests_ok = re.search(r"test suite with patch: rc=0", r.stdout) is not None
        merged = meta.get("checks_run_quick_tier_seed0", {})
        merged.update(checks)  # verdicts of checks not run this time are kept
        meta["checks_run_quick_tier_seed0"] = merged
        if not a.skip_tests:
            meta["confirmed"] = {"test_suite_with_patch": "40 passed, coverage gate reached" if tests_ok else "FAILED"}
        json.dump(meta, open(os.path.join(d, "meta.json"), "w"), indent=1)
        print(sid, {k: v["verdict"] for k, v in checks.items()}, flush=True)
    subprocess.run([os.path.join(VERIF, "tools", "seeded_matrix.py"), "--matrix-only"])
    print("non-silent verdicts:", bad)
    return 1 if bad else 0


if __name__ == "__main__":
    sys.exit(main())
