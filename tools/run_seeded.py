#!/venv/bin/python
"""Evaluate a seeded change (patch.diff + demo.py) against the checks.

  tools/run_seeded.py DIR [--props C01,C02] [--tier quick] [--runs N] [--skip-tests]

DIR holds patch.diff and demo.py.  A scratch git worktree of /repo is created
under a temp dir, the patch applied there, and removed afterwards:
  1. the repo's own test suite must still pass with the patch,
  2. demo.py must fail with the patch and pass without it,
  3. each named check is run with VERIF_REPO pointing at the patched tree.
Prints one line per step; exit 0 if (1) and (2) hold and at least one check
reports a VIOLATION.
"""

import argparse
import json
import os
import shutil
import subprocess
import sys
import tempfile

VERIF = os.path.dirname(os.path.dirname(os.path.abspath(__file__)))
ALL = ["C01", "C02", "C04", "C05", "C11", "C12", "C13", "C17"]


def sh(cmd, **kw):
    return subprocess.run(cmd, capture_output=True, text=True, **kw)


def main():
    ap = argparse.ArgumentParser()
    ap.add_argument("dir")
    ap.add_argument("--props", default=",".join(ALL))
    ap.add_argument("--tier", default="quick")
    ap.add_argument("--runs", type=int, default=0)
    ap.add_argument("--skip-tests", action="store_true")
    ap.add_argument("--seed", default="0")
    a = ap.parse_args()
    d = os.path.abspath(a.dir)
    patch = os.path.join(d, "patch.diff")
    demo = os.path.join(d, "demo.py")
    tmp = tempfile.mkdtemp(prefix="verif-seeded-")
    wt = os.path.join(tmp, "wt")
    res = {"dir": d, "checks": {}}
    try:
        r = sh(["git", "-C", "/repo", "worktree", "add", "-q", "--detach", wt, "HEAD"])
        if r.returncode:
            print("worktree failed", r.stderr)
            return 2
        if os.path.exists(demo):
            r = sh(["/venv/bin/python", demo, os.path.join(wt, "src")], timeout=300)
            res["demo_clean_rc"] = r.returncode
            print(f"demo on clean tree: rc={r.returncode} {r.stdout.strip().splitlines()[-1][:120] if r.stdout.strip() else ''}")
        r = sh(["git", "-C", wt, "apply", patch])
        if r.returncode:
            print("patch does not apply:", r.stderr[:300])
            return 2
        if not a.skip_tests:
            r = sh(["/venv/bin/python", "-m", "pytest", "-q", "-p", "no:cacheprovider", "--timeout=900"], cwd=wt, timeout=1200)
            tail = [ln for ln in r.stdout.strip().splitlines() if "passed" in ln or "failed" in ln or "coverage" in ln]
            res["tests_rc"] = r.returncode
            print(f"test suite with patch: rc={r.returncode} {' | '.join(tail)[-200:]}")
        if os.path.exists(demo):
            r = sh(["/venv/bin/python", demo, os.path.join(wt, "src")], timeout=300)
            res["demo_patched_rc"] = r.returncode
            print(f"demo on patched tree: rc={r.returncode} {r.stdout.strip().splitlines()[-1][:160] if r.stdout.strip() else ''}")
        caught = []
        for p in a.props.split(","):
            cmd = [os.path.join(VERIF, "check"), p, "--tier", a.tier, "--no-evidence"]
            if a.runs:
                cmd += ["--runs", str(a.runs)]
            r = sh(cmd, env=dict(os.environ, VERIF_REPO=wt, VERIF_SEED=a.seed), timeout=4 * 3600)
            lines = r.stdout.strip().splitlines()
            cls = [ln.strip() for ln in lines if ln.strip().startswith("class=")]
            verdict = {0: "silent", 1: "VIOLATION", 2: "HARNESS-ERROR"}.get(r.returncode, f"rc={r.returncode}")
            res["checks"][p] = {"rc": r.returncode, "class": cls[0][:300] if cls else None}
            print(f"check {p}: {verdict} {cls[0][:220] if cls else (lines[-1][:160] if lines else r.stderr[-200:])}", flush=True)
            if r.returncode == 1:
                caught.append(p)
        res["caught_by"] = caught
        print("RESULT " + json.dumps(res))
        ok = res.get("demo_clean_rc", 0) == 0 and res.get("demo_patched_rc", 1) != 0 and res.get("tests_rc", 0) == 0
        return 0 if ok and caught else 1
    finally:
        sh(["git", "-C", "/repo", "worktree", "remove", "--force", wt])
        shutil.rmtree(tmp, ignore_errors=True)
        sh(["git", "-C", "/repo", "worktree", "prune"])


if __name__ == "__main__":
    sys.exit(main())
